"""Structured control-flow reasoning over the HIR tree view: evaluation order, dominance by region
containment, and a must-pass-through (pairing) interpreter."""
from .tree import *  # noqa


class Index:
    """pre-order numbering in evaluation order + conditional-region paths for every node of a body"""

    def __init__(self, body):
        self.pre = {}
        self.regions = {}
        self.parent = {}
        self.nodes = []
        self._n = 0
        self._rid = 0
        self._visit(body, (), None)

    def _new_region(self, kind):
        self._rid += 1
        return (self._rid, kind)

    def _visit(self, n, regs, parent):
        if isinstance(n, list):
            for x in n:
                self._visit(x, regs, parent)
            return
        if not isinstance(n, dict):
            return
        if "k" not in n:
            for key, v in n.items():
                if key != "mac":
                    self._visit(v, regs, parent)
            return
        self.pre[id(n)] = self._n
        self._n += 1
        self.regions[id(n)] = regs
        self.parent[id(n)] = parent
        self.nodes.append(n)
        k = n["k"]
        if k == "if":
            self._visit(n["cond"], regs, n)
            self._visit(n["then"], regs + (self._new_region("then"),), n)
            if "else" in n:
                self._visit(n["else"], regs + (self._new_region("else"),), n)
        elif k == "match":
            self._visit(n["scrut"], regs, n)
            for arm in n["arms"]:
                r = regs + (self._new_region("arm"),)
                if "guard" in arm:
                    self._visit(arm["guard"], r, n)
                self._visit(arm["body"], r, n)
        elif k == "for":
            self._visit(n["iter"], regs, n)
            self._visit(n["body"], regs + (self._new_region("loop"),), n)
        elif k == "while":
            r = regs + (self._new_region("loop"),)
            self._visit(n["cond"], r, n)
            self._visit(n["body"], r, n)
        elif k == "loop":
            self._visit(n["body"], regs + (self._new_region("loop"),), n)
        elif k == "closure":
            self._visit(n["body"], regs + (self._new_region("closure"),), n)
        elif k == "binary" and n["op"] in ("&&", "||"):
            self._visit(n["l"], regs, n)
            self._visit(n["r"], regs + (self._new_region("shortcircuit"),), n)
        elif k == "let":
            if "init" in n:
                self._visit(n["init"], regs, n)
            if "els" in n:
                self._visit(n["els"], regs + (self._new_region("else"),), n)
        elif k == "mcall":
            self._visit(n["recv"], regs, n)
            self._visit(n["args"], regs, n)
        elif k == "assign" or k == "assignop":
            self._visit(n["r"], regs, n)
            self._visit(n["l"], regs, n)
        else:
            for key, v in n.items():
                if key != "mac" and isinstance(v, (dict, list)):
                    self._visit(v, regs, n)

    def is_ancestor(self, a, b):
        p = self.parent.get(id(b))
        while p is not None:
            if p is a:
                return True
            p = self.parent.get(id(p))
        return False

    def precedes(self, a, b):
        """a is evaluated (started) before b and is not an ancestor of b"""
        return self.pre[id(a)] < self.pre[id(b)] and not self.is_ancestor(a, b)

    def dominates(self, a, b):
        """every execution reaching b has evaluated a before (within the same iteration of shared loops):
        a precedes b and every conditional region containing a also contains b"""
        if not self.precedes(a, b):
            return False
        ra, rb = self.regions[id(a)], self.regions[id(b)]
        return ra == rb[:len(ra)]

    def enclosing(self, n, kinds):
        p = self.parent.get(id(n))
        while p is not None:
            if p.get("k") in kinds:
                return p
            p = self.parent.get(id(p))
        return None

    def ancestors(self, n):
        out = []
        p = self.parent.get(id(n))
        while p is not None:
            out.append(p)
            p = self.parent.get(id(p))
        return out

    def region_kinds(self, n):
        return [k for _, k in self.regions[id(n)]]


def diverges(n):
    return n.get("ty") == "!" and n.get("k") not in ("blockexpr",)


def _value_tag(e):
    """shape of a value handed back by a helper: Some / None / Err (through Ok(..)), else other"""
    for _ in range(8):
        if not isinstance(e, dict):
            return "other"
        k = e.get("k")
        if k in ("paren", "ref"):
            e = e["e"]
        elif k == "blockexpr" and "tail" in e["b"] and "inl_id" not in e:
            e = e["b"]["tail"]
        elif k == "ctor" and (callee(e) or "").endswith("Result::Ok") and len(e.get("args", [])) == 1:
            e = e["args"][0]
        else:
            break
    if not isinstance(e, dict):
        return "other"
    c = (callee(e) or e.get("path") or "") if e.get("k") in ("ctor", "def", "path") else ""
    if c.endswith("Option::Some"):
        return "Some"
    if c.endswith("Option::None"):
        return "None"
    if c.endswith("Result::Err"):
        return "Err"
    return "other"


def _pattern_tag(p):
    while isinstance(p, dict) and p.get("k") in ("pref", "pderef"):
        p = p["pat"]
    if not isinstance(p, dict):
        return None
    if p.get("k") == "pwild" or (p.get("k") == "pbind" and "sub" not in p):
        return "wild"
    path = p.get("path", "")
    if p.get("k") in ("pvariant", "pconst", "ppath") and path.endswith("Option::Some"):
        return "Some"
    if p.get("k") in ("pvariant", "pconst", "ppath") and path.endswith("Option::None"):
        return "None"
    return None


class Pairing:
    """must-pass-through: after every evaluation of a `start` node, every path to the end of `scope`
    (or to a break/continue leaving it) evaluates a `target` node; paths that leave the function
    (return, `?` error edge, panic) are exempt.  States: idle / need / done."""

    def __init__(self, is_start, is_target, return_exempt=lambda n: True):
        self.is_start = is_start
        self.is_target = is_target
        self.return_exempt = return_exempt
        self.problems = []   # (node, text)
        self.unrecognised = []

    def run_scope(self, scope_body):
        out = self.ex(scope_body, frozenset(["idle"]), 0)
        if "need" in out:
            self.problems.append((scope_body, "the end of the enclosing scope is reachable without the closing call"))
        return self.problems

    def _tags_of(self, e):
        """exit states per value shape when e is a local bound to the value of an inlined helper and no opening/closing call ran since"""
        while isinstance(e, dict) and e.get("k") in ("paren", "ref", "deref"):
            e = e["e"]
        if isinstance(e, dict) and e.get("k") == "local":
            rec = getattr(self, "_tagged", {}).get(e["id"])
            if rec is not None and rec[0] == getattr(self, "_events", 0):
                return rec[1]
        return None

    def _option_test(self, cond):
        """`if let Some(..) = x` / `x.is_some()` / `x.is_none()` on such a local: (tags, tag selected by the then-branch)"""
        c = cond
        while c.get("k") in ("paren",):
            c = c["e"]
        if c.get("k") == "letexpr":
            tags = self._tags_of(c["init"])
            tag = _pattern_tag(c["pat"])
            if tags is not None and tag in ("Some", "None"):
                return tags, tag
        if c.get("k") == "mcall" and c["name"] in ("is_some", "is_none") and not c["args"]:
            tags = self._tags_of(c["recv"])
            if tags is not None:
                return tags, "Some" if c["name"] == "is_some" else "None"
        return None

    def ex_list(self, ns, st, depth):
        for x in ns:
            st = self.ex(x, st, depth)
            if not st:
                break
        return st

    def ex(self, n, st, depth):
        if not st:
            return st
        if isinstance(n, list):
            return self.ex_list(n, st, depth)
        if not isinstance(n, dict):
            return st
        k = n.get("k")
        if k is None:
            for key, v in n.items():
                if key != "mac":
                    st = self.ex(v, st, depth)
            return st
        if k == "block":
            st = self.ex_list(n["stmts"], st, depth)
            if "tail" in n:
                st = self.ex(n["tail"], st, depth)
            return st
        if k == "blockexpr":
            if "inl_id" in n:
                # an inlined helper: its `return`s (ireturn) continue after the block; the states are kept per shape of the
                # value handed back (Some / None / Err / other) so that a later test of that value selects the matching exits
                self._irets = getattr(self, "_irets", {})
                self._irets[n["inl_id"]] = {}
                out = self.ex(n["b"], st, depth)
                tags = self._irets.pop(n["inl_id"])
                if out:
                    t = n["b"].get("tail")
                    tags.setdefault(_value_tag(t) if t is not None else "other", set()).update(out)
                self._last_inl = (id(n), {a: frozenset(b) for a, b in tags.items()})
                return frozenset(x for b in tags.values() for x in b)
            return self.ex(n["b"], st, depth)
        if k == "ireturn":
            if "e" in n:
                st = self.ex(n["e"], st, depth)
            if n.get("inl") in getattr(self, "_irets", {}):
                self._irets[n["inl"]].setdefault(_value_tag(n["e"]) if "e" in n else "other", set()).update(st)
            return frozenset()
        if k == "semi":
            return self.ex(n["e"], st, depth)
        if k == "let":
            if "init" in n:
                st = self.ex(n["init"], st, depth)
                ini, tried = n["init"], False
                while isinstance(ini, dict) and ini.get("k") in ("try", "paren", "ref"):
                    tried = tried or ini["k"] == "try"
                    ini = ini["e"]
                li = getattr(self, "_last_inl", None)
                if li is not None and li[0] == id(ini) and n["pat"].get("k") == "pbind" and "els" not in n:
                    tags = dict(li[1])
                    if tried:
                        tags.pop("Err", None)      # the error edge of `?` leaves the function
                        st = frozenset(x for b in tags.values() for x in b)
                    self._tagged = getattr(self, "_tagged", {})
                    self._tagged[n["pat"]["id"]] = (getattr(self, "_events", 0), tags)
            if "els" in n:
                # else block diverges by construction
                self.ex(n["els"], st, depth)
            return st
        if k == "if":
            sel = self._option_test(n["cond"]) if isinstance(n["cond"], dict) else None
            st = self.ex(n["cond"], st, depth)
            sa = sb = st
            if sel is not None:
                tags, tag = sel
                sa = frozenset(x for t_, b in tags.items() if t_ in (tag, "other") for x in b) & st
                sb = frozenset(x for t_, b in tags.items() if t_ != tag for x in b) & st
            a = self.ex(n["then"], sa, depth)
            b = self.ex(n["else"], sb, depth) if "else" in n else sb
            return frozenset(a | b)
        if k == "match":
            tagged = self._tags_of(n["scrut"])
            st = self.ex(n["scrut"], st, depth)
            out = set()
            seen = set()
            for arm in n["arms"]:
                s2 = st
                if tagged is not None:
                    tag = _pattern_tag(arm["pat"])
                    if tag in ("Some", "None"):
                        s2 = frozenset(x for t_, b in tagged.items() if t_ in (tag, "other") for x in b) & st
                        if "guard" not in arm:
                            seen.add(tag)
                    elif tag == "wild":
                        s2 = frozenset(x for t_, b in tagged.items() if t_ not in seen for x in b) & st
                if "guard" in arm:
                    s2 = self.ex(arm["guard"], s2, depth)
                out |= self.ex(arm["body"], s2, depth)
            return frozenset(out)
        if k in ("for", "while", "loop"):
            if k == "for":
                st = self.ex(n["iter"], st, depth)
            cur = frozenset(st)
            self._breaks = getattr(self, "_breaks", [])
            self._breaks.append(set())
            for _ in range(4):
                s2 = cur
                if k == "while":
                    s2 = self.ex(n["cond"], s2, depth + 1)
                s2 = self.ex(n["body"], s2, depth + 1)
                new = frozenset(cur | s2)
                if new == cur:
                    break
                cur = new
            br = self._breaks.pop()
            if k == "loop":
                return frozenset(br)
            return frozenset(cur | br)
        if k == "break":
            if depth == 0:
                if "need" in st:
                    self.problems.append((n, "`break` leaves the scope before the closing call"))
            else:
                self._breaks[-1] |= set(st)
            return frozenset()
        if k == "continue":
            if depth == 0:
                if "need" in st:
                    self.problems.append((n, "`continue` reaches the loop latch before the closing call"))
            return frozenset()
        if k == "return":
            if "e" in n:
                st = self.ex(n["e"], st, depth)
            if "need" in st and not self.return_exempt(n):
                self.problems.append((n, "`return` leaves the function before the closing call"))
            return frozenset()
        if k == "closure":
            for x in walk(n["body"]):
                if self.is_start(x) or self.is_target(x):
                    self.unrecognised.append((x, "opening/closing call inside a closure"))
            return st
        if k == "try":
            st = self.ex(n["e"], st, depth)
            return st  # the error edge leaves the function: exempt
        if k == "binary" and n["op"] in ("&&", "||"):
            st = self.ex(n["l"], st, depth)
            r = self.ex(n["r"], st, depth)
            return frozenset(st | r)
        # generic expression: evaluate children in order, then the node itself
        if k == "mcall":
            st = self.ex(n["recv"], st, depth)
            st = self.ex(n["args"], st, depth)
        else:
            for key, v in n.items():
                if key != "mac" and isinstance(v, (dict, list)):
                    st = self.ex(v, st, depth)
        if not st:
            return st
        if self.is_target(n) or self.is_start(n):
            self._events = getattr(self, "_events", 0) + 1
        if self.is_target(n):
            st = frozenset(("done" if s == "need" else s) for s in st)
        if self.is_start(n):
            if "need" in st:
                self.problems.append((n, "the opening call is evaluated again while a previous one has not been closed"))
            st = frozenset(["need"])
        if n.get("ty") == "!" and k in ("call", "mcall", "callv"):
            return frozenset()
        return st
