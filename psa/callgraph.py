"""Call graph over the analysed crates (resolved callees from the HIR facts)."""
from .tree import *  # noqa


def _base(t):
    t = (t or "").strip()
    while t.startswith("&"):
        t = t[1:].strip()
        if t.startswith("mut "):
            t = t[4:].strip()
    import re
    return re.sub(r"<.*$", "", t)


def build(facts, crates=None):
    g = {}
    fns = {}
    iter_impls = {}
    for c, f in facts.all_fns(include_tests=False):
        p = f["path"]
        if p.startswith("<") and " as core::iter::traits::iterator::Iterator>::next" in p:
            iter_impls[_base(p[1:].split(" as ")[0])] = p
    def normalised():
        """library crates of the repository: the prepared view (new helper functions are analysed inside their callers)"""
        for c in facts.crates:
            if c.is_test:
                continue
            if c.fns is c.raw_fns:
                for p, fl in c.raw_fns.items():
                    for f in fl:
                        yield c, f
            else:
                for p, fl in c.fns.items():
                    for f in fl:
                        yield c, f
    for c, f in normalised():
        if crates and c.name not in crates:
            continue
        fns[f["path"]] = f
        out = set()
        for n in walk(f["body"]):
            p = callee(n)
            if p:
                out.add(p)
            if n.get("k") in ("call", "mcall") and n.get("path"):
                out.add(n["path"])
            if n.get("k") == "for":
                for key in ("next_fn", "into_iter_fn"):
                    if n.get(key):
                        out.add(n[key])
                t = _base(n["iter"].get("aty") or n["iter"].get("ty"))
                if t in iter_impls:
                    out.add(iter_impls[t])
            if n.get("k") == "mcall" and (n.get("path") or "").startswith("core::iter::traits::iterator::Iterator::"):
                t = _base(n["recv"].get("aty") or n["recv"].get("ty"))
                if t in iter_impls:
                    out.add(iter_impls[t])
            if n.get("k") == "def" and n.get("dk") in ("fn", "assoc_fn"):
                out.add(n.get("res") or n["path"])
                out.add(n["path"])
        g[f["path"]] = out
    return g, fns


def reachable(g, roots):
    seen = set()
    todo = list(roots)
    while todo:
        x = todo.pop()
        if x in seen:
            continue
        seen.add(x)
        for y in g.get(x, ()):
            if y not in seen:
                todo.append(y)
    return seen
