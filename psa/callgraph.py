"""Call graph over the analysed crates (resolved callees from the HIR facts)."""
from .tree import *  # noqa


def build(facts, crates=None):
    g = {}
    fns = {}
    for c, f in facts.all_fns(include_tests=False):
        if crates and c.name not in crates:
            continue
        fns[f["path"]] = f
        out = set()
        for n in walk(f["body"]):
            p = callee(n)
            if p:
                out.add(p)
            if n.get("k") in ("call", "mcall") and n.get("path"):
                out.add(n["path"])
            if n.get("k") == "def" and n.get("dk") in ("fn", "assoc_fn"):
                out.add(n.get("res") or n["path"])
                out.add(n["path"])
        g[f["path"]] = out
    return g, fns


def reachable(g, roots):
    seen = set()
    todo = list(roots)
    while todo:
        x = todo.pop()
        if x in seen:
            continue
        seen.add(x)
        for y in g.get(x, ()):
            if y not in seen:
                todo.append(y)
    return seen
