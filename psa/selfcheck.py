"""Positive / negative controls: every detector must fire on its bad_* fixture and stay silent on the good_* twin.
Run on every check invocation; a failing control is an ENGINE-ERROR (no verdict is printed)."""
from .tree import *  # noqa
from .flow import Index, Pairing
from . import intcast, panics


def run(fixtures):
    c = fixtures.lib("psa_fixtures")
    F = {p.split("::")[-1]: fl[0] for p, fl in c.fns.items()}
    problems = []

    def expect(name, fired, want):
        if fired != want:
            problems.append("%s: detector %s (expected %s)" % (name, "fired" if fired else "silent", "to fire" if want else "silence"))

    # narrowing casts
    for name, want in (("bad_narrow", True), ("good_narrow_guarded", False), ("good_narrow_try", False)):
        f = F[name]
        insts = intcast.narrowing_casts(f)
        fired = any(not intcast.guarded(f, i)[0] for i in insts)
        expect("intcast:" + name, fired, want)
    # pairing
    for name, want in (("bad_pairing", True), ("good_pairing", False)):
        f = F[name]
        loop = [n for n in walk(f["body"]) if n.get("k") == "for"][0]

        def exempt(n):
            e = peel(n.get("e", {}))
            return e.get("k") == "ctor" and (callee(e) or "").endswith("Result::Err")
        p = Pairing(lambda n: n.get("k") == "call" and (callee(n) or "").endswith("open_scope"), lambda n: n.get("k") == "call" and (callee(n) or "").endswith("close_scope"), exempt)
        expect("pairing:" + name, bool(p.run_scope(loop["body"])), want)
    # fused evaluation/update
    for name, want in (("bad_fused", True), ("good_two_phase", False)):
        f = F[name]
        ix = Index(f["body"])
        evals = [n for n in ix.nodes if n.get("k") == "call" and (callee(n) or "").endswith("eval_one")]
        ups = [n for n in ix.nodes if n.get("k") == "mcall" and n["name"] == "push"]
        fired = False
        for u in ups:
            for e in evals:
                ru = [r for r in ix.regions[id(u)] if r[1] in ("loop", "closure")]
                re_ = [r for r in ix.regions[id(e)] if r[1] in ("loop", "closure")]
                if [r for r in ru if r in re_]:
                    fired = True
        expect("fused:" + name, fired, want)
    # read loops
    from .rules import c15, c20, c13
    for name, want in (("bad_read_loop", True), ("good_read_loop", False)):
        f = F[name]
        ix = Index(f["body"])
        fired = False
        for x in ix.nodes:
            if x.get("k") == "mcall" and x["name"] == "read_line":
                loop = ix.enclosing(x, ("while", "loop", "for"))
                if loop is not None and not c15.count_used_to_exit(x, ix, loop)[0]:
                    fired = True
        expect("eof:" + name, fired, want)
    # results
    for name, want in (("bad_result_dropped", True), ("good_result_used", False)):
        f = F[name]
        fired = False
        for x, parents in walk_parents(f["body"]):
            if x.get("k") == "call" and (callee(x) or "").endswith("fallible") and c15.is_solver_result(x.get("ty")):
                how, ok = c15.consumption(x, parents, f)
                if not ok:
                    fired = True
        expect("result:" + name, fired, want)
    # aborts
    for name, want in (("bad_aborts", {"macro:todo", "unwrap:unwrap", "decrement"}), ("good_no_aborts", set())):
        f = F[name]
        got = set()
        for s_ in panics.keyed(name, panics.sites(f)):
            if s_["kind"] == "macro" and s_["what"] in ("todo", "panic", "unreachable", "unimplemented"):
                got.add("macro:" + s_["what"])
            elif s_["kind"] == "unwrap":
                got.add("unwrap:" + s_["what"])
            elif s_["kind"] == "decrement":
                from .rules import c14
                if not c14.guarded_decrement(f, s_["node"]):
                    got.add("decrement")
        if got != want:
            problems.append("aborts:%s: inventory %s, expected %s" % (name, sorted(got), sorted(want)))
    # ambient state
    for name, want in (("bad_ambient", True), ("good_pure", False)):
        f = F[name]
        fired = any((n.get("k") == "def" and n.get("dk") == "static") or (callee(n) or "").startswith(c13.AMBIENT_PREFIXES) for n in walk(f["body"]))
        expect("ambient:" + name, fired, want)
    # typestate
    for name, want in (("bad_unsorted_delete", True), ("good_sorted_delete", False), ("good_loop_index_delete", False)):
        f = F[name]
        ix = Index(f["body"])
        defs = local_defs(f)
        fired = False
        for n in ix.nodes:
            if n.get("k") == "call" and (callee(n) or "").endswith("delete_entries"):
                a = peel(n["args"][0])
                st, _ = c20.typestate(a["id"], n, ix, defs)
                fired = st != "Sorted"
        expect("typestate:" + name, fired, want)
    # append-only table
    from .rules import c12
    for name, want in (("bad_remove", True), ("good_append", False)):
        f = F[name]
        fired = False
        for n in walk(f["body"]):
            if n.get("k") == "mcall" and peel(n["recv"]).get("k") == "field" and peel(n["recv"])["name"] == "items":
                if n["name"] not in ("push", "len", "get", "iter"):
                    fired = True
        expect("append-only:" + name, fired, want)
    # memo table with a lossy key
    FP = {p: fl[0] for p, fl in c.fns.items() if "::Memo::" in p}
    got = {p.split("::")[-1]: bool(bad) for p, f, fld, bad, n_ in c12.memo_findings(FP, {"items"})}
    for name, want in (("bad_memo", True), ("good_memo", False)):
        if name not in got:
            problems.append("memo:%s: the method was not recognised as reading a memo table" % name)
        else:
            expect("memo:" + name, got[name], want)
    return problems, 30
