"""Width (sort) inference for code that builds expressions: a symbolic evaluator over the prepared HIR with a linear-arithmetic
width domain.

Every ExprRef / BitVecValue / BVLitValue value carries a *width term*: a linear expression over symbols (the widths of the
function's parameters, the integer attributes of matched nodes, integer locals).  Facts are linear equalities collected on the
path that is being evaluated:

  * the IR's typing rules for a node matched against a variant pattern (`match ctx[a] { Expr::BVConcat(x, y, w) => ..` gives
    w(a) = w = w(x) + w(y)), and for the children slice handed to a rule (`[a, b]` are the operands of the matched node),
  * `let w = e.get_bv_type(ctx).unwrap()`, `let width = a_width + b_width`, `x.width()`,
  * branch conditions that are equalities (`by == 0`, `a.get_bv_type(ctx) == Some(1)`, `lo_a == hi_b + 1`), `is_true()/is_false()/to_bool()`
    (1-bit values).

Obligations: (1) the expression a rule returns has the width of the node it replaces, (2) every builder call gets operands whose
widths satisfy the builder's typing rule (same width for and/or/add/.., 1-bit condition and equal branches for ite, ...).
An obligation is *violated* on a path when the difference of the two width terms, reduced by the path's equalities, is not
identically zero and mentions no opaque symbol (= a value the evaluator could not model); *undecided* when it mentions one.
Range conditions (hi >= lo, hi < width) are inequalities and are not decided.

No program is run: the evaluator enumerates syntactic paths of the rule functions and solves linear equalities."""
from fractions import Fraction
from .tree import *  # noqa

CTX = "patronus::expr::context::Context"
BUILDER = "patronus::expr::context::Builder"


# ---- linear terms ---------------------------------------------------------------------------------------------------
class Lin:
    __slots__ = ("c", "t")

    def __init__(self, c=0, t=None):
        self.c = Fraction(c)
        self.t = {k: Fraction(v) for k, v in (t or {}).items() if v != 0}

    @staticmethod
    def var(name):
        return Lin(0, {name: 1})

    def __add__(self, o):
        o = lin(o)
        t = dict(self.t)
        for k, v in o.t.items():
            t[k] = t.get(k, 0) + v
        return Lin(self.c + o.c, t)

    def __sub__(self, o):
        return self + lin(o).scale(-1)

    def scale(self, f):
        return Lin(self.c * f, {k: v * f for k, v in self.t.items()})

    def is_const(self):
        return not self.t

    def opaque(self):
        return any(k.startswith("?") for k in self.t)

    def __repr__(self):
        parts = []
        for k, v in sorted(self.t.items()):
            parts.append(("%s" % k) if v == 1 else ("-%s" % k if v == -1 else "%s*%s" % (v, k)))
        if self.c != 0 or not parts:
            parts.append(str(self.c))
        return " + ".join(parts).replace("+ -", "- ")


def lin(x):
    return x if isinstance(x, Lin) else Lin(x)


class Facts:
    """solved form of linear equalities: var -> term over the remaining vars"""

    def __init__(self, sub=None, nodes=None, known=None, kids=None):
        self.sub = dict(sub or {})
        self.nodes = dict(nodes or {})      # ident of an ExprRef -> (variant, {field: value})
        self.known = dict(known or {})      # ident -> variant name once a pattern on it matched
        self.kids = dict(kids or {})        # ident -> [child values] once the children slice was destructured before the variant was known

    def copy(self):
        return Facts(self.sub, self.nodes, self.known, self.kids)

    def norm(self, t):
        t = lin(t)
        out = Lin(t.c)
        for k, v in t.t.items():
            out = out + (self.sub[k].scale(v) if k in self.sub else Lin(0, {k: v}))
        return out

    def add_eq(self, a, b):
        """False when the equality contradicts the facts (the path is infeasible)"""
        r = self.norm(lin(a) - lin(b))
        if r.is_const():
            return r.c == 0
        # solve for one variable: prefer opaque ones, then the longest name (locals / fields before parameters)
        k = sorted(r.t, key=lambda x: (not x.startswith("?"), -len(x), x))[0]
        coef = r.t[k]
        rest = Lin(r.c, {x: v for x, v in r.t.items() if x != k}).scale(Fraction(-1) / coef)
        for x in list(self.sub):
            if k in self.sub[x].t:
                f = self.sub[x].t[k]
                self.sub[x] = Lin(self.sub[x].c, {y: v for y, v in self.sub[x].t.items() if y != k}) + rest.scale(f)
        self.sub[k] = rest
        return True


# ---- values ---------------------------------------------------------------------------------------------------------
class Val:
    pass


class E(Val):      # ExprRef
    def __init__(self, w, ident=None):
        self.w, self.ident = lin(w), ident


class I(Val):      # integer
    def __init__(self, t):
        self.t = lin(t)


class V(Val):      # bit-vector value
    def __init__(self, w):
        self.w = lin(w)


class N(Val):      # the node of an ExprRef (ctx[e])
    def __init__(self, e):
        self.e = e


class Kids(Val):   # the children slice of a node
    def __init__(self, e):
        self.e = e


class T(Val):
    def __init__(self, vs):
        self.vs = list(vs)


class C(Val):      # enum / Option constructor
    def __init__(self, path, args=(), site=None):
        self.path, self.args, self.site = path, list(args), site


class Bo(Val):     # boolean with an optional formula
    def __init__(self, f=None):
        self.f = f      # ("eq", Lin, Lin) | ("and", [..]) | ("or", [..]) | ("not", f) | ("w1", Lin) | None


class Cx(Val):     # the context / builder
    pass


class Clo(Val):
    def __init__(self, node, env):
        self.node, self.env = node, env


class U(Val):      # opaque
    _n = [0]

    def __init__(self, what=""):
        U._n[0] += 1
        self.name = "?%d" % U._n[0]
        self.what = what


def fresh(prefix="?"):
    U._n[0] += 1
    return "%s%d" % (prefix, U._n[0])


def as_int(v):
    if isinstance(v, I):
        return v.t
    if isinstance(v, U):
        return Lin.var(v.name)
    return Lin.var(fresh())


def width_of(v):
    if isinstance(v, (E, V)):
        return v.w
    if isinstance(v, N):
        return v.e.w
    if isinstance(v, U):
        return Lin.var(v.name)
    return Lin.var(fresh())


# ---- the IR's typing rules (oracle) -----------------------------------------------------------------------------------
SAME_BIN = ("BVAnd", "BVOr", "BVXor", "BVShiftLeft", "BVArithmeticShiftRight", "BVShiftRight", "BVAdd", "BVMul", "BVSignedDiv", "BVUnsignedDiv",
            "BVSignedMod", "BVSignedRem", "BVUnsignedRem", "BVSub")
CMP = ("BVEqual", "BVGreater", "BVGreaterSigned", "BVGreaterEqual", "BVGreaterEqualSigned")


def node_equations(variant, fv, w):
    """equalities the typing rule of `variant` imposes; fv: field name -> value, w: width of the node"""
    def g(k):
        return fv.get(k)
    eqs = []
    if variant == "BVSymbol":
        eqs.append((w, as_int(g("width"))))
    elif variant == "BVLiteral":
        eqs.append((w, width_of(g("0"))))
    elif variant in ("BVZeroExt", "BVSignExt"):
        eqs += [(w, as_int(g("width"))), (w, width_of(g("e")) + as_int(g("by")))]
    elif variant == "BVSlice":
        eqs.append((w, as_int(g("hi")) - as_int(g("lo")) + 1))
    elif variant in ("BVNot", "BVNegate"):
        eqs += [(w, as_int(g("1"))), (w, width_of(g("0")))]
    elif variant in CMP:
        eqs += [(w, 1), (width_of(g("0")), width_of(g("1")))]
    elif variant == "BVImplies":
        eqs += [(w, 1), (width_of(g("0")), 1), (width_of(g("1")), 1)]
    elif variant == "BVConcat":
        eqs += [(w, as_int(g("2"))), (w, width_of(g("0")) + width_of(g("1")))]
    elif variant == "BVIte":
        eqs += [(width_of(g("cond")), 1), (w, width_of(g("tru"))), (w, width_of(g("fals")))]
    elif variant == "BVArrayRead":
        eqs.append((w, as_int(g("width"))))
    elif variant in SAME_BIN:
        eqs += [(w, as_int(g("2"))), (w, width_of(g("0"))), (w, width_of(g("1")))]
    elif variant == "ArrayEqual":
        eqs.append((w, 1))
    return eqs


# builder name -> (preconditions, result width) as functions of the argument values
def _same(a, b):
    return [("same-width", width_of(a), width_of(b))]


BUILDERS = {}
for _n in ("and", "or", "xor", "add", "sub", "mul", "shift_left", "shift_right", "arithmetic_shift_right", "signed_div", "div", "signed_mod", "signed_remainder", "remainder"):
    BUILDERS[_n] = (lambda a: _same(a[0], a[1]), lambda a: width_of(a[0]))
for _n in ("equal", "greater", "greater_signed", "greater_or_equal", "greater_or_equal_signed", "distinct"):
    BUILDERS[_n] = (lambda a: _same(a[0], a[1]), lambda a: Lin(1))
BUILDERS["implies"] = (lambda a: [("1-bit", width_of(a[0]), Lin(1)), ("1-bit", width_of(a[1]), Lin(1))], lambda a: Lin(1))
BUILDERS["not"] = (lambda a: [], lambda a: width_of(a[0]))
BUILDERS["negate"] = BUILDERS["not"]
BUILDERS["concat"] = (lambda a: [], lambda a: width_of(a[0]) + width_of(a[1]))
BUILDERS["slice"] = (lambda a: [], lambda a: as_int(a[1]) - as_int(a[2]) + 1)
BUILDERS["zero_extend"] = (lambda a: [], lambda a: width_of(a[0]) + as_int(a[1]))
BUILDERS["sign_extend"] = BUILDERS["zero_extend"]
BUILDERS["ite"] = (lambda a: [("1-bit condition", width_of(a[0]), Lin(1))] + _same(a[1], a[2]), lambda a: width_of(a[1]))
for _n in ("zero", "ones", "one"):
    BUILDERS[_n] = (lambda a: [], lambda a: as_int(a[0]))
for _n in ("get_true", "get_false", "tru", "fals"):
    BUILDERS[_n] = (lambda a: [], lambda a: Lin(1))
BUILDERS["bv_lit"] = (lambda a: [], lambda a: width_of(a[0]))
BUILDERS["bit_vec_val"] = (lambda a: [], lambda a: as_int(a[1]))
BUILDERS["bv_symbol"] = (lambda a: [], lambda a: as_int(a[1]))

# baa value operations: result width
VAL_SAME = ("and", "or", "xor", "add", "sub", "mul", "shift_left", "shift_right", "arithmetic_shift_right", "not", "negate", "signed_div", "unsigned_div",
            "signed_mod", "signed_remainder", "unsigned_remainder")
VAL_BOOL = ("is_zero", "is_all_ones", "is_one", "is_equal", "is_greater", "is_greater_or_equal", "is_greater_signed", "is_greater_or_equal_signed", "is_negative", "is_not_equal")


class Obligation:
    def __init__(self, key, kind, node, fn):
        self.key, self.kind, self.node, self.fn = key, kind, node, fn
        self.paths = 0
        self.bad = []          # residual texts
        self.undecided = 0


class Evaluator:
    def __init__(self, crate, max_depth=3, max_paths=4000):
        self.crate = crate
        self.max_depth = max_depth
        self.max_paths = max_paths
        self.obl = {}
        self.ordinals = {}
        self.unmodelled = {}
        self.paths = 0
        self.stack = []        # function paths being evaluated

    # ---- bookkeeping -------------------------------------------------------------------------------------------
    def note(self, node, what):
        self.unmodelled.setdefault((self.stack[-1] if self.stack else "?", what), node)

    def obligation(self, kind, label, node, a, b, F):
        fn = (self.stack[-1] if self.stack else "?").split("::")[-1]
        key0 = (fn, kind, id(node), label)
        if key0 not in self.ordinals:
            base = "%s:%s" % (fn, kind)
            n = sum(1 for k in self.ordinals if k[0] == fn and k[1] == kind) + 1
            self.ordinals[key0] = "%s#%d%s" % (base, n, (":" + label) if label else "")
        key = self.ordinals[key0]
        o = self.obl.setdefault(key, Obligation(key, kind, node, fn))
        o.paths += 1
        r = F.norm(lin(a) - lin(b))
        if r.is_const() and r.c == 0:
            return
        if r.opaque():
            o.undecided += 1
            return
        txt = "%s  vs  %s   (difference %s)" % (F.norm(a), F.norm(b), r)
        if txt not in o.bad:
            o.bad.append(txt)

    # ---- patterns ----------------------------------------------------------------------------------------------
    def match_pat(self, pat, val, env, F):
        """-> list of (certainty, env, F): certainty 'yes' (always matches) | 'maybe'; empty list = cannot match"""
        k = pat.get("k")
        if k in ("pref", "pderef"):
            return self.match_pat(pat["pat"], val, env, F)
        if k == "pwild":
            return [("yes", env, F)]
        if k == "pbind":
            env = dict(env)
            env[canon(pat["id"])] = val
            if "sub" in pat:
                return self.match_pat(pat["sub"], val, env, F)
            return [("yes", env, F)]
        if k == "por":
            out = []
            for a in pat["alts"]:
                out += [("maybe", e2, f2) for _, e2, f2 in self.match_pat(a, val, env, F.copy())]
            return out
        if k == "ptuple":
            if isinstance(val, T) and len(val.vs) == len(pat["subs"]):
                return self._match_seq(list(zip(pat["subs"], val.vs)), env, F)
            return self._bind_opaque(pat, env, F)
        if k in ("pvariant", "pstruct", "pconst", "ppath"):
            name = pat.get("path", "").split("::")[-1]
            if isinstance(val, N) and "::nodes::Expr::" in pat.get("path", ""):
                return self._match_node(pat, name, val, env, F)
            if isinstance(val, C):
                if val.path.split("::")[-1] != name:
                    return []
                subs = pat.get("subs", [])
                if len(subs) == len(val.args):
                    return self._match_seq(list(zip(subs, val.args)), env, F)
                return self._bind_opaque(pat, env, F)
            return self._bind_opaque(pat, env, F)
        if k == "pslice":
            if isinstance(val, Kids) and "mid" not in pat:
                rec = F.nodes.get(val.e.ident)
                els = pat["before"] + pat.get("after", [])
                if rec is not None:
                    kids = [v for _, v in rec[1] if isinstance(v, E)]
                    if len(kids) != len(els):
                        return []
                    return self._match_seq(list(zip(els, kids)), env, F)
                if val.e.ident is not None:
                    # the variant is not known yet: name the children now, the variant pattern that follows ties them to its operand fields
                    F = F.copy()
                    if val.e.ident in F.kids:
                        kids = F.kids[val.e.ident]
                        if len(kids) != len(els):
                            return []
                    else:
                        kids = [E(Lin.var("w(%s.child%d)" % (val.e.ident, i)), "%s.child%d" % (val.e.ident, i)) for i in range(len(els))]
                        F.kids[val.e.ident] = kids
                    return [("maybe", e2, f2) for _, e2, f2 in self._match_seq(list(zip(els, kids)), env, F)]
            return self._bind_opaque(pat, env, F)
        if k == "plit":
            if isinstance(val, I) and isinstance(pat.get("v"), int) and not isinstance(pat.get("v"), bool):
                F2 = F.copy()
                return [("maybe", env, F2)] if F2.add_eq(val.t, pat["v"]) else []
            return [("maybe", env, F)]
        return self._bind_opaque(pat, env, F)

    def _match_seq(self, pairs, env, F):
        outs = [("yes", env, F)]
        for p, v in pairs:
            nxt = []
            for cert, e1, f1 in outs:
                for c2, e2, f2 in self.match_pat(p, v, e1, f1):
                    nxt.append(("yes" if cert == "yes" and c2 == "yes" else "maybe", e2, f2))
            outs = nxt
        return outs

    def _bind_opaque(self, pat, env, F):
        env = dict(env)
        for _, i in pat_bindings(pat):
            env[canon(i)] = U("pattern binding")
        return [("maybe", env, F)]

    def _variant_fields(self, name):
        a = self.crate.adts.get("patronus::expr::nodes::Expr")
        for v in (a or {}).get("variants", []):
            if v["name"] == name:
                return v["fields"]
        return None

    def _match_node(self, pat, name, val, env, F):
        e = val.e
        ident = e.ident
        if ident is not None and ident in F.known and F.known[ident] != name:
            return []
        fields = self._variant_fields(name)
        if fields is None:
            return self._bind_opaque(pat, env, F)
        F = F.copy()
        if ident is not None and ident in F.nodes and F.nodes[ident][0] == name:
            fv = F.nodes[ident][1]
        else:
            fv = []
            pre = list(F.kids.get(ident, [])) if ident is not None and ident in F.kids else None
            if pre is not None and len(pre) != len([fd for fd in fields if fd["ty"].endswith("ExprRef")]):
                return []                 # the children slice that was destructured earlier has another length
            for fd in fields:
                nm = "%s.%s" % (ident or fresh("n"), fd["name"])
                ty = fd["ty"]
                if ty.endswith("ExprRef") and pre is not None:
                    fv.append((fd["name"], pre.pop(0)))
                elif ty.endswith("ExprRef"):
                    fv.append((fd["name"], E(Lin.var("w(%s)" % nm), nm)))
                elif ty in ("u32", "u64", "usize"):
                    fv.append((fd["name"], I(Lin.var(nm))))
                elif ty.endswith("BVLitValue"):
                    fv.append((fd["name"], V(Lin.var("w(%s)" % nm))))
                else:
                    fv.append((fd["name"], U(ty)))
            for a, b in node_equations(name, dict(fv), e.w):
                if not F.add_eq(a, b):
                    return []
            if ident is not None:
                F.nodes[ident] = (name, fv)
                F.known[ident] = name
        fvd = dict(fv)
        pairs = []
        if pat.get("k") == "pstruct":
            for f_ in pat["fields"]:
                if f_["name"] in fvd:
                    pairs.append((f_["pat"], fvd[f_["name"]]))
        else:
            subs = pat.get("subs", [])
            if subs and len(subs) == len(fv):
                pairs = list(zip(subs, [v for _, v in fv]))
            elif subs:
                return self._bind_opaque(pat, env, F)
        return [("maybe", e2, f2) for _, e2, f2 in self._match_seq(pairs, env, F)]

    # ---- conditions --------------------------------------------------------------------------------------------
    def assume(self, f, pol, F):
        """add what the formula implies when it is known to be `pol`; False when contradictory"""
        if f is None:
            return True
        tag = f[0]
        if tag == "not":
            return self.assume(f[1], not pol, F)
        if tag == "eq":
            return F.add_eq(f[1], f[2]) if pol else True
        if tag == "w1":
            return F.add_eq(f[1], 1) if pol else True
        if tag == "and":
            return all(self.assume(x, True, F) for x in f[1]) if pol else True
        if tag == "or":
            return all(self.assume(x, False, F) for x in f[1]) if not pol else True
        return True

    # ---- expressions -------------------------------------------------------------------------------------------
    def ev(self, n, env, F, depth):
        """-> list of (kind, value, env, F), kind in v | ret | div"""
        self.paths += 1
        if self.paths > self.max_paths * 50:
            return [("v", U("path budget"), env, F)]
        k = n.get("k")
        h = getattr(self, "ev_" + str(k), None)
        if h is None:
            self.note(n, "expression kind `%s`" % k)
            return [("v", U(k), env, F)]
        return h(n, env, F, depth)

    def then(self, outs, fn):
        """continue every normal outcome with fn(value, env, F) -> outcomes"""
        res = []
        for kind, v, e1, f1 in outs:
            if kind == "v":
                res += fn(v, e1, f1)
            else:
                res.append((kind, v, e1, f1))
        return res

    def ev_args(self, nodes, env, F, depth, k):
        """evaluate nodes left to right, then k(values, env, F)"""
        def go(i, vals, env, F):
            if i == len(nodes):
                return k(vals, env, F)
            return self.then(self.ev(nodes[i], env, F, depth), lambda v, e1, f1: go(i + 1, vals + [v], e1, f1))
        return go(0, [], env, F)

    def ev_lit(self, n, env, F, depth):
        v = n.get("v")
        if isinstance(v, bool):
            return [("v", Bo(("const", v)), env, F)]
        if isinstance(v, int):
            return [("v", I(v), env, F)]
        return [("v", U("literal"), env, F)]

    def ev_local(self, n, env, F, depth):
        i = canon(n["id"])
        if i in env:
            return [("v", env[i], env, F)]
        if n["id"] in env:
            return [("v", env[n["id"]], env, F)]
        c = CONSTS.get(n["id"]) if isinstance(CONSTS, dict) else None
        return [("v", U("unbound local %s" % n.get("name")), env, F)]

    def _through(self, n, env, F, depth):
        return self.ev(n["e"], env, F, depth)
    ev_ref = ev_deref = ev_paren = _through

    def ev_cast(self, n, env, F, depth):
        return self.ev(n["e"], env, F, depth)

    def ev_try(self, n, env, F, depth):
        def k(v, e1, f1):
            if isinstance(v, C) and v.path.split("::")[-1] in ("Some", "Ok") and v.args:
                return [("v", v.args[0], e1, f1)]
            if isinstance(v, C) and v.path.split("::")[-1] in ("None", "Err"):
                return [("ret", v, e1, f1)]
            return [("v", U("?"), e1, f1)]
        return self.then(self.ev(n["e"], env, F, depth), k)

    def ev_unary(self, n, env, F, depth):
        if n["op"] == "*":
            return self.ev(n["e"], env, F, depth)

        def k(v, e1, f1):
            if n["op"] == "!" and isinstance(v, Bo):
                return [("v", Bo(("not", v.f) if v.f else None), e1, f1)]
            if n["op"] == "-" and isinstance(v, I):
                return [("v", I(v.t.scale(-1)), e1, f1)]
            return [("v", U("unary"), e1, f1)]
        return self.then(self.ev(n["e"], env, F, depth), k)

    def ev_binary(self, n, env, F, depth):
        op = n["op"]

        def k(vs, e1, f1):
            a, b = vs
            if op in ("+", "-") and isinstance(a, (I, U)) and isinstance(b, (I, U)):
                ta, tb = as_int(a), as_int(b)
                return [("v", I(ta + tb if op == "+" else ta - tb), e1, f1)]
            if op == "*" and isinstance(a, I) and isinstance(b, I) and (a.t.is_const() or b.t.is_const()):
                return [("v", I(b.t.scale(a.t.c) if a.t.is_const() else a.t.scale(b.t.c)), e1, f1)]
            if op in ("==", "!="):
                f = self.eq_formula(a, b)
                return [("v", Bo(f if op == "==" else (("not", f) if f else None)), e1, f1)]
            if op in ("&&", "||") and isinstance(a, Bo) and isinstance(b, Bo):
                return [("v", Bo(("and" if op == "&&" else "or", [a.f, b.f])), e1, f1)]
            if op in ("<", "<=", ">", ">="):
                return [("v", Bo(None), e1, f1)]
            return [("v", U("binary %s" % op), e1, f1)]
        return self.ev_args([n["l"], n["r"]], env, F, depth, k)

    def eq_formula(self, a, b):
        if isinstance(a, I) and isinstance(b, I):
            return ("eq", a.t, b.t)
        if isinstance(a, (E, V)) and isinstance(b, (E, V)):
            return ("eq", a.w, b.w)           # equal references / values have equal widths
        if isinstance(a, C) and isinstance(b, C) and a.path.split("::")[-1] == b.path.split("::")[-1] == "Some" and a.args and b.args:
            return self.eq_formula(a.args[0], b.args[0])
        if isinstance(a, T) and isinstance(b, T) and len(a.vs) == len(b.vs):
            return ("and", [self.eq_formula(x, y) for x, y in zip(a.vs, b.vs)])
        return None

    def ev_tuple(self, n, env, F, depth):
        return self.ev_args(n["es"], env, F, depth, lambda vs, e1, f1: [("v", T(vs), e1, f1)])

    def ev_field(self, n, env, F, depth):
        def k(v, e1, f1):
            if isinstance(v, T) and str(n["name"]).isdigit() and int(n["name"]) < len(v.vs):
                return [("v", v.vs[int(n["name"])], e1, f1)]
            return [("v", U("field %s" % n["name"]), e1, f1)]
        return self.then(self.ev(n["e"], env, F, depth), k)

    def ev_index(self, n, env, F, depth):
        def k(vs, e1, f1):
            base, ix = vs
            if isinstance(base, Cx) and isinstance(ix, E):
                return [("v", N(ix), e1, f1)]
            if isinstance(base, Kids) and isinstance(ix, I) and ix.t.is_const():
                rec = f1.nodes.get(base.e.ident)
                if rec is not None:
                    kids = [v for _, v in rec[1] if isinstance(v, E)]
                    j = int(ix.t.c)
                    if 0 <= j < len(kids):
                        return [("v", kids[j], e1, f1)]
            return [("v", U("index"), e1, f1)]
        return self.ev_args([n["e"], n["i"]], env, F, depth, k)

    def ev_ctor(self, n, env, F, depth):
        path = callee(n) or n.get("path") or ""
        site = (self.stack[-1] if self.stack else "?", n)
        return self.ev_args(n.get("args", []), env, F, depth, lambda vs, e1, f1: [("v", C(path, vs, site), e1, f1)])

    def ev_def(self, n, env, F, depth):
        if str(n.get("dk", "")).startswith("ctor"):
            return [("v", C(n.get("path", ""), []), env, F)]
        return [("v", U("path"), env, F)]

    def ev_struct(self, n, env, F, depth):
        return self.ev_args([f_["e"] for f_ in n.get("fields", [])], env, F, depth, lambda vs, e1, f1: [("v", U("struct"), e1, f1)])

    def ev_closure(self, n, env, F, depth):
        return [("v", Clo(n, env), env, F)]

    def ev_blockexpr(self, n, env, F, depth):
        outs = self.ev_block(n["b"], env, F, depth)
        if "inl_id" in n:
            tag = ("iret", n["inl_id"])
            outs = [(("v" if kind == tag else kind), v, e1, f1) for kind, v, e1, f1 in outs]
        return outs

    def ev_block(self, b, env, F, depth):
        def go(i, env, F):
            if i == len(b["stmts"]):
                if "tail" in b:
                    return self.ev(b["tail"], env, F, depth)
                return [("v", T([]), env, F)]
            s_ = b["stmts"][i]
            return self.then(self.ev_stmt(s_, env, F, depth), lambda v, e1, f1: go(i + 1, e1, f1))
        return go(0, env, F)

    def ev_stmt(self, s_, env, F, depth):
        k = s_.get("k")
        if k == "semi":
            return self.ev(s_["e"], env, F, depth)
        if k == "let":
            if "init" not in s_:
                env = dict(env)
                for _, i in pat_bindings(s_["pat"]):
                    env[canon(i)] = U("uninitialised")
                return [("v", T([]), env, F)]

            def kk(v, e1, f1):
                ms = self.match_pat(s_["pat"], v, e1, f1)
                out = [("v", T([]), e2, f2) for _, e2, f2 in ms]
                if "els" in s_ or "else" in s_:
                    els = s_.get("els") or s_.get("else")
                    if not ms or any(c_ != "yes" for c_, _, _ in ms):
                        out += self.ev(els, e1, f1, depth) if isinstance(els, dict) and "k" in els else []
                return out
            return self.then(self.ev(s_["init"], env, F, depth), kk)
        if k in ("item", "fn", "use", "const", "static"):
            return [("v", T([]), env, F)]
        return self.ev(s_, env, F, depth)

    def ev_semi(self, n, env, F, depth):
        return self.ev(n["e"], env, F, depth)

    def ev_let(self, n, env, F, depth):
        return self.ev_stmt(n, env, F, depth)

    def ev_return(self, n, env, F, depth):
        if "e" not in n:
            return [("ret", T([]), env, F)]
        return self.then(self.ev(n["e"], env, F, depth), lambda v, e1, f1: [("ret", v, e1, f1)])

    def ev_ireturn(self, n, env, F, depth):
        # the exit of an inlined helper leaves that helper's block only
        tag = ("iret", n.get("inl"))
        if "e" not in n:
            return [(tag, T([]), env, F)]
        return self.then(self.ev(n["e"], env, F, depth), lambda v, e1, f1: [(tag, v, e1, f1)])

    def _div(self, n, env, F, depth):
        return [("div", None, env, F)]
    ev_break = ev_continue = _div

    def ev_if(self, n, env, F, depth):
        c = peel(n["cond"])
        if c.get("k") == "lit" and c.get("v") is True and any(m.startswith("debug_assert") or m.startswith("assert") for m in mac_names(n)):
            return [("v", T([]), env, F)]
        if c.get("k") == "letexpr":
            def kk(v, e1, f1):
                ms = self.match_pat(c["pat"], v, e1, f1.copy())
                out = []
                for _, e2, f2 in ms:
                    out += self.ev(n["then"], e2, f2, depth)
                if not ms or any(c_ != "yes" for c_, _, _ in ms):
                    out += self.ev(n["else"], e1, f1, depth) if "else" in n else [("v", T([]), e1, f1)]
                return out
            return self.then(self.ev(c["init"], env, F, depth), kk)

        def k(v, e1, f1):
            f = v.f if isinstance(v, Bo) else None
            out = []
            if not (f and f[0] == "const" and f[1] is False):
                ft = f1.copy()
                if self.assume(f, True, ft):
                    out += self.ev(n["then"], e1, ft, depth)
            if not (f and f[0] == "const" and f[1] is True):
                ff = f1.copy()
                if self.assume(f, False, ff):
                    out += self.ev(n["else"], e1, ff, depth) if "else" in n else [("v", T([]), e1, ff)]
            return out
        return self.then(self.ev(n["cond"], env, F, depth), k)

    def ev_match(self, n, env, F, depth):
        def k(v, e1, f1):
            out = []
            for arm in n["arms"]:
                ms = self.match_pat(arm["pat"], v, e1, f1.copy())
                sure = False
                for cert, e2, f2 in ms:
                    if "guard" in arm:
                        g = peel(arm["guard"])
                        if g.get("k") == "letexpr":
                            def kg(gv, e3, f3, arm=arm, g=g):
                                res = []
                                for _, e4, f4 in self.match_pat(g["pat"], gv, e3, f3.copy()):
                                    res += self.ev(arm["body"], e4, f4, depth)
                                return res
                            out += self.then(self.ev(g["init"], e2, f2, depth), kg)
                        else:
                            def kb(gv, e3, f3, arm=arm):
                                f = gv.f if isinstance(gv, Bo) else None
                                f3 = f3.copy()
                                if not self.assume(f, True, f3):
                                    return []
                                return self.ev(arm["body"], e3, f3, depth)
                            out += self.then(self.ev(arm["guard"], e2, f2, depth), kb)
                    else:
                        out += self.ev(arm["body"], e2, f2, depth)
                        if cert == "yes":
                            sure = True
                if sure:
                    break
            return out
        return self.then(self.ev(n["scrut"], env, F, depth), k)

    def _loop(self, n, env, F, depth):
        # loops are not unrolled: everything assigned or pushed to inside becomes opaque
        self.note(n, "loop (not unrolled)")
        env = dict(env)
        for x in walk(n):
            if x.get("k") in ("assign", "assignop"):
                i = local_id(x["l"])
                if i is not None:
                    env[canon(i)] = U("assigned in a loop")
            if x.get("k") == "mcall" and x["name"] in ("push", "insert", "extend", "push_str"):
                i = local_id(x["recv"])
                if i is not None:
                    env[canon(i)] = U("filled in a loop")
        return [("v", T([]), env, F)]
    ev_for = ev_while = ev_loop = _loop

    def ev_assign(self, n, env, F, depth):
        def k(v, e1, f1):
            i = local_id(n["l"])
            if i is not None:
                e1 = dict(e1)
                e1[canon(i)] = v
            return [("v", T([]), e1, f1)]
        return self.then(self.ev(n["r"], env, F, depth), k)

    def ev_assignop(self, n, env, F, depth):
        i = local_id(n["l"])
        env = dict(env)
        if i is not None:
            env[canon(i)] = U("compound assignment")
        return [("v", T([]), env, F)]

    def ev_letexpr(self, n, env, F, depth):
        return [("v", Bo(None), env, F)]

    def ev_array(self, n, env, F, depth):
        return [("v", U("array"), env, F)]

    def ev_range(self, n, env, F, depth):
        return [("v", U("range"), env, F)]

    def ev_callv(self, n, env, F, depth):
        return self.ev_call(n, env, F, depth)

    # ---- calls -------------------------------------------------------------------------------------------------
    def ev_call(self, n, env, F, depth):
        path = callee(n) or ""
        if path.startswith("core::panicking") or path.endswith("::panic") or "unreachable" in path:
            return [("div", None, env, F)]
        args = n.get("args", [])

        def k(vs, e1, f1):
            last = path.split("::")[-1]
            if path.endswith(("Option::Some", "Result::Ok")):
                return [("v", C(path, vs, (self.stack[-1] if self.stack else "?", n)), e1, f1)]
            if "BitVecValue" in path and last in ("ones", "zero", "tru", "fals") :
                return [("v", V(as_int(vs[0]) if vs else Lin(1)), e1, f1)]
            if "BitVecValue" in path and last in ("from_u64", "from_i64", "from_u128", "from_big_uint", "from_bool") and vs:
                return [("v", V(as_int(vs[-1]) if last != "from_bool" else Lin(1)), e1, f1)]
            if path.startswith(CTX + "::") or path.startswith(BUILDER + "::"):
                return self.builder(last, vs[1:] if vs and isinstance(vs[0], Cx) else vs, n, e1, f1, depth)
            if n.get("k") == "callv" or (n.get("f") is not None and peel(n.get("f", {})).get("k") == "local"):
                fv = None
                for v_ in self.then(self.ev(n["f"], e1, f1, depth), lambda v, e2, f2: [("v", v, e2, f2)]):
                    fv = v_[1]
                if isinstance(fv, Clo):
                    return self.call_closure(fv, vs, e1, f1, depth)
            return self.call_fn(path, vs, n, e1, f1, depth)
        return self.ev_args(args, env, F, depth, k)

    def call_closure(self, clo, vs, env, F, depth):
        cenv = dict(clo.env)
        cenv.update({k_: v_ for k_, v_ in env.items() if k_ not in cenv})
        outs = [("yes", cenv, F)]
        for p, v in zip(clo.node["params"], vs):
            nxt = []
            for _, e1, f1 in outs:
                nxt += self.match_pat(p, v, e1, f1)
            outs = nxt
        res = []
        for _, e1, f1 in outs:
            for kind, v, e2, f2 in self.ev(clo.node["body"], e1, f1, depth):
                res.append(("v" if kind == "ret" else kind, v, env, f2))
        return res

    def call_fn(self, path, vs, n, env, F, depth):
        fl = self.crate.fns.get(path)
        if not fl or depth >= self.max_depth or path in self.stack:
            if path.startswith("patronus::") and not fl:
                self.note(n, "call of %s (no body)" % path)
            return [("v", self.opaque_result(n), env, F)]
        f = fl[0]
        fenv = {}
        outs = [("yes", fenv, F)]
        for p, v in zip(f["params"], vs):
            nxt = []
            for _, e1, f1 in outs:
                nxt += self.match_pat(p, v, e1, f1)
            outs = nxt
        res = []
        self.stack.append(path)
        try:
            for _, e1, f1 in outs:
                for kind, v, e2, f2 in self.ev(f["body"], e1, f1, depth + 1):
                    if kind in ("v", "ret"):
                        res.append(("v", v, env, f2))
        finally:
            self.stack.pop()
        return res

    def opaque_result(self, n):
        ty = n.get("ty") or ""
        if ty.endswith("ExprRef"):
            return E(Lin.var(fresh()))
        if ty in ("u32", "u64", "usize"):
            return I(Lin.var(fresh()))
        if ty == "bool":
            return Bo(None)
        return U(ty[:40])

    def builder(self, name, vs, n, env, F, depth):
        if name == "build" and vs and isinstance(vs[-1], Clo):
            return self.call_closure(vs[-1], [Cx()], env, F, depth)
        if name in BUILDERS:
            pre, res = BUILDERS[name]
            try:
                for label, a, b in pre(vs):
                    self.obligation("operands:" + name, label, n, a, b, F)
                return [("v", E(res(vs)), env, F)]
            except (IndexError, TypeError, AttributeError):
                self.note(n, "builder %s with unexpected arguments" % name)
                return [("v", E(Lin.var(fresh())), env, F)]
        if name in ("get_symbol_name", "string", "get_symbol_name_ref"):
            return [("v", U("name"), env, F)]
        self.note(n, "Context method %s" % name)
        return [("v", self.opaque_result(n), env, F)]

    def ev_mcall(self, n, env, F, depth):
        name = n["name"]
        path = n.get("path") or ""
        res_path = n.get("res") or path

        def k(vs, e1, f1):
            recv, args = vs[0], vs[1:]
            if name in ("clone", "borrow", "as_ref", "to_owned", "copied", "cloned", "deref", "by_ref", "as_mut", "borrow_mut"):
                return [("v", recv, e1, f1)]
            if isinstance(recv, Cx):
                return self.builder(name, args, n, e1, f1, depth)
            if name in ("get_bv_type",) and isinstance(recv, (E, N)):
                return [("v", C("Option::Some", [I(width_of(recv))]), e1, f1)]
            if name in ("unwrap", "expect", "unwrap_or_default"):
                if isinstance(recv, C) and recv.path.split("::")[-1] in ("Some", "Ok") and recv.args:
                    return [("v", recv.args[0], e1, f1)]
                if isinstance(recv, C) and recv.path.split("::")[-1] in ("None", "Err") and name != "unwrap_or_default":
                    return [("div", None, e1, f1)]
                if isinstance(recv, Bo):
                    return [("v", Bo(None), e1, f1)]
                return [("v", self.opaque_result(n), e1, f1)]
            if name == "get" and isinstance(recv, V) and len(args) == 1 and isinstance(args[0], Cx):
                return [("v", V(recv.w), e1, f1)]
            if isinstance(recv, V):
                if name in VAL_SAME:
                    for a in args:
                        if isinstance(a, V):
                            self.obligation("value-operands:" + name, "same-width", n, recv.w, a.w, f1)
                    return [("v", V(recv.w), e1, f1)]
                if name == "concat" and args:
                    return [("v", V(recv.w + width_of(args[0])), e1, f1)]
                if name == "slice" and len(args) == 2:
                    return [("v", V(as_int(args[0]) - as_int(args[1]) + 1), e1, f1)]
                if name in ("zero_extend", "sign_extend") and args:
                    return [("v", V(recv.w + as_int(args[0])), e1, f1)]
                if name == "width":
                    return [("v", I(recv.w), e1, f1)]
                if name in ("is_true", "is_false", "is_tru", "is_fals"):
                    return [("v", Bo(("w1", recv.w)), e1, f1)]
                if name == "to_bool":
                    # Some(_) exactly for 1-bit values
                    f_some = f1.copy()
                    out = []
                    if f_some.add_eq(recv.w, 1):
                        out.append(("v", C("Option::Some", [Bo(None)]), e1, f_some))
                    out.append(("v", C("Option::None", []), e1, f1))
                    return out
                if name in VAL_BOOL:
                    return [("v", Bo(None), e1, f1)]
                if name in ("to_u64", "to_i64", "to_u128", "is_pow_2", "to_big_uint"):
                    return [("v", U("value conversion"), e1, f1)]
            if name == "into" and isinstance(recv, Bo) and "BitVecValue" in (n.get("ty") or ""):
                return [("v", V(1), e1, f1)]
            if name in ("into", "try_into", "from") and isinstance(recv, (I,)):
                return [("v", recv, e1, f1)]
            if name == "is_bool" and isinstance(recv, U):
                return [("v", Bo(None), e1, f1)]
            if name in ("is_some", "is_none") and isinstance(recv, C):
                some = recv.path.split("::")[-1] == "Some"
                return [("v", Bo(("const", some if name == "is_some" else not some)), e1, f1)]
            if name in ("map", "and_then") and isinstance(recv, C) and args and isinstance(args[0], Clo):
                if recv.path.split("::")[-1] == "Some" and recv.args:
                    def wrap(v, e2, f2):
                        return [("v", v if name == "and_then" else C("Option::Some", [v]), e2, f2)]
                    return self.then(self.call_closure(args[0], [recv.args[0]], e1, f1, depth), wrap)
                return [("v", recv, e1, f1)]
            # a method of the crate with a body (e.g. helper methods on ExprRef / Expr)
            rp = res_path if res_path in self.crate.fns else (path if path in self.crate.fns else None)
            if rp is not None and isinstance(recv, (E, N, V, Cx, Kids, T, C)):
                return self.call_fn(rp, vs, n, e1, f1, depth)
            return [("v", self.opaque_result(n), e1, f1)]
        return self.ev_args([n["recv"]] + n.get("args", []), env, F, depth, k)


def analyse_dispatch(crate, fpath, expr_param="expr", children_param="children"):
    """evaluate the rule dispatcher: obligations of all rule functions it calls + `result width = width of the replaced node`"""
    ev = Evaluator(crate)
    f = crate.fns[fpath][0]
    env = {}
    e = E(Lin.var("w(expr)"), "expr")
    bound = {"expr": False, "children": False}
    for p in f["params"]:
        b = [x for x in pat_bindings(p)]
        ty = p.get("ty", "")
        if not b:
            continue
        i = canon(b[0][1])
        if "Context" in ty:
            env[i] = Cx()
        elif ty.endswith("ExprRef") and not bound["expr"]:
            env[i] = e
            bound["expr"] = True
        elif "[" in ty and "ExprRef" in ty and not bound["children"]:
            env[i] = Kids(e)
            bound["children"] = True
        else:
            env[i] = U("parameter")
    ev.stack.append(fpath)
    outs = ev.ev(f["body"], env, Facts(), 0)
    results = {"some": 0, "none": 0, "other": 0}
    for kind, v, e1, f1 in outs:
        if kind not in ("v", "ret"):
            continue
        if isinstance(v, C) and v.path.split("::")[-1] == "Some" and v.args:
            results["some"] += 1
            fn, node = v.site if v.site else (fpath, f["body"])
            ev.stack.append(fn)
            ev.obligation("result", "width-of-replaced-node", node, width_of(v.args[0]), e.w, f1)
            ev.stack.pop()
        elif isinstance(v, C) and v.path.split("::")[-1] == "None":
            results["none"] += 1
        else:
            results["other"] += 1
    return ev, results, bound
