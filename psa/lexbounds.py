"""Slice bounds of a character-at-a-time state machine (the SMT lexer).

The machine has a cursor field (`pos`) that is advanced by `pos += 1`, a state field holding an enum whose data variants
carry the cursor value at which the current token started, and it cuts tokens out of the input with `input[start..pos - k]`.
A range slice aborts when start > end.  The analysis computes, per data variant V, a lower bound lb[V] on `pos - start` that
holds whenever the dispatch on the state is entered with `state == V(start)`:

    state = V(pos)        establishes distance 0          state = V(pos - c)   establishes distance c
    state = V(start)      (start bound by the current arm, state W) establishes lb[W] + (increments executed so far on the path)
    pos += 1              adds 1 to every distance        staying in the state keeps (or raises) the distance

(least fixed point, starting from +inf).  Every slice `input[a..b]` with a = the arm's start binding and b = `pos - k` / `pos`
is then safe iff  lb[V] + increments-so-far - k >= 0.  After the loop the same bound holds for the state left behind; `pos = input.len()`
only moves the cursor forward.  The upper bound (b <= len) needs: at most one increment per visit of the dispatch (the loop consumes one
character per visit), which is checked too.

Everything that is not of these forms is reported to the caller as `unmodelled` (the caller decides; it is listed as not analysed)."""
from .tree import *  # noqa

INF = 10 ** 6


class Machine:
    def __init__(self, f, cursor="pos", state="state", source="input"):
        self.f = f
        self.cursor, self.state, self.source = cursor, state, source
        self.unmodelled = []
        self.sites = []          # (node, arm variant or None, start-distance expr)
        self.lb = {}
        self.dispatches = []     # (match node, in_loop)

    # ---- recognisers -------------------------------------------------------------------------------------------
    def is_self_field(self, e, name):
        e = peel(e)
        return e.get("k") == "field" and e["name"] == name and peel(e["e"]).get("k") == "local" and peel(e["e"]).get("name") == "self"

    def cursor_minus(self, e):
        """`self.pos` -> 0, `self.pos - c` -> c, else None"""
        e = resolve(peel(e))
        if self.is_self_field(e, self.cursor):
            return 0
        if e.get("k") == "binary" and e["op"] in ("-", "+") and self.is_self_field(e["l"], self.cursor):
            r = peel(e["r"])
            if r.get("k") == "lit" and isinstance(r.get("v"), int):
                return r["v"] if e["op"] == "-" else -r["v"]
        return None

    def variant_of(self, e):
        """(variant name, payload expr or None) for a constructor / unit path of the state enum"""
        e = peel(e)
        if e.get("k") == "ctor" and len(e.get("args", [])) == 1:
            return (callee(e) or "").split("::")[-1], e["args"][0]
        if e.get("k") in ("def", "path", "ctor") and not e.get("args"):
            return (e.get("path") or callee(e) or "").split("::")[-1], None
        return None

    # ---- abstract execution of one arm ---------------------------------------------------------------------------
    def run_arm(self, body, cur_variant, start_id, record):
        """walks `body` path-sensitively; a path state is (increments, next) with next = None (state unchanged) or (variant, distance).
        Returns the list of path states that fall out of the body or return."""
        out = []

        def dist_of_payload(p, inc):
            p0 = peel(p)
            if start_id is not None and is_local(p0, start_id):
                return ("start", inc)
            c = self.cursor_minus(p0)
            if c is not None:
                return ("abs", c)
            return None

        def slice_check(n, inc):
            rng = peel(n["i"])
            if not (rng.get("k") == "struct" and (rng.get("path") or "").endswith("Range")):
                return
            if not self.is_self_field(n["e"], self.source):
                return
            fs = {x["name"]: x["e"] for x in rng["fields"]}
            a, b = fs.get("start"), fs.get("end")
            if a is None or b is None:
                self.unmodelled.append((n, "half-open range"))
                return
            k = self.cursor_minus(b)
            if k is None:
                b0 = resolve(peel(b))
                if b0.get("k") == "mcall" and b0["name"] == "len" and self.is_self_field(b0["recv"], self.source):
                    k = ("len",)
                else:
                    self.unmodelled.append((n, "end of the range is not `%s - k`" % self.cursor))
                    return
            if start_id is not None and is_local(peel(a), start_id):
                record(n, cur_variant, inc, k)
            else:
                ka = self.cursor_minus(a)
                if ka is not None and k != ("len",):
                    record(n, None, ka - k, 0)          # start = pos - ka, end = pos - k : needs ka >= k
                else:
                    self.unmodelled.append((n, "start of the range is neither the state's payload nor `%s - k`" % self.cursor))

        def ev(n, states):
            """evaluate node n from each of `states`; returns the states that continue after n (returned/diverged ones go to out)"""
            if not isinstance(n, dict) or not states:
                return states
            k = n.get("k")
            if k in ("blockexpr",):
                return ev(n["b"], states)
            if k == "block":
                for s_ in n["stmts"]:
                    states = ev(s_, states)
                if "tail" in n:
                    states = ev(n["tail"], states)
                return states
            if k == "semi":
                return ev(n["e"], states)
            if k == "let":
                return ev(n["init"], states) if "init" in n else states
            if k == "if":
                c = peel(n["cond"])
                if c.get("k") == "lit" and c.get("v") is True and mac_names(n):      # debug_assert!
                    return states
                states = ev(n["cond"], states)
                a = ev(n["then"], list(states))
                b = ev(n["else"], list(states)) if "else" in n else list(states)
                return a + b
            if k == "match":
                states = ev(n["scrut"], states)
                res = []
                for arm in n["arms"]:
                    st = list(states)
                    if "guard" in arm:
                        st = ev(arm["guard"], st)
                    res += ev(arm["body"], st)
                return res
            if k == "return":
                if "e" in n:
                    states = ev(n["e"], states)
                out.extend(states)
                return []
            if k in ("break", "continue"):
                out.extend(states)
                return []
            if k == "assignop" and self.is_self_field(n["l"], self.cursor):
                r = peel(n["r"])
                if n["op"] in ("+=", "+") and r.get("k") == "lit" and r.get("v") == 1:
                    return [(inc + 1, nx) for inc, nx in states]
                self.unmodelled.append((n, "cursor update other than `+= 1`"))
                return states
            if k == "assign" and self.is_self_field(n["l"], self.cursor):
                r = resolve(peel(n["r"]))
                if r.get("k") == "mcall" and r["name"] == "len" and self.is_self_field(r["recv"], self.source):
                    return [(("len", inc), nx) for inc, nx in states]
                self.unmodelled.append((n, "cursor assignment other than `= %s.len()`" % self.source))
                return states
            if k == "assign" and self.is_self_field(n["l"], self.state):
                return assign_state(n["r"], states)
            if k == "index":
                states = ev(n["e"], states)
                states = ev(n["i"], states)
                for inc, _ in states:
                    slice_check(n, inc)
                return states
            if k == "closure":
                return states
            for ch in children(n):
                states = ev(ch, states)
            return states

        def assign_state(r, states):
            r0 = peel(r)
            if r0.get("k") in ("return", "break", "continue"):
                return ev(r0, states)
            if r0.get("k") == "match":
                states = ev(r0["scrut"], states)
                res = []
                for arm in r0["arms"]:
                    res += assign_state(arm["body"], list(states))
                return res
            if r0.get("k") == "if" and "else" in r0:
                states = ev(r0["cond"], states)
                return assign_state(r0["then"], list(states)) + assign_state(r0["else"], list(states))
            if r0.get("k") == "blockexpr" and not r0["b"]["stmts"] and "tail" in r0["b"]:
                return assign_state(r0["b"]["tail"], states)
            v = self.variant_of(r0)
            if v is None:
                self.unmodelled.append((r0, "state assignment is not a constructor of the state enum"))
                return states
            name, payload = v
            res = []
            for inc, _ in states:
                if payload is None:
                    res.append((inc, (name, None)))
                else:
                    d = dist_of_payload(payload, inc)
                    if d is None:
                        self.unmodelled.append((r0, "payload of the new state is neither `%s - c` nor the current start" % self.cursor))
                        res.append((inc, (name, ("abs", 0))))
                    else:
                        res.append((inc, (name, d)))
            return res

        rest = ev(body, [(0, None)])
        return out + rest


def children(n):
    out = []
    for key, v in n.items():
        if key == "mac":
            continue
        if isinstance(v, dict) and "k" in v:
            out.append(v)
        elif isinstance(v, list):
            for x in v:
                if isinstance(x, dict) and "k" in x:
                    out.append(x)
                elif isinstance(x, dict):
                    for y in x.values():
                        if isinstance(y, dict) and "k" in y:
                            out.append(y)
    return out


def analyse(f, cursor="pos", state="state", source="input"):
    """returns (sites, unmodelled, lb, n_dispatch): sites = [{node, variant, need, have, ok}]"""
    m = Machine(f, cursor, state, source)
    # the dispatches on the state field: `match self.state { V(start) => .. }`
    disp = []
    for n, parents in walk_parents(f["body"]):
        if n.get("k") == "match" and m.is_self_field(n["scrut"], state):
            in_loop = any(p.get("k") in ("for", "while", "loop") for p in parents)
            disp.append((n, in_loop))
    lb = {}
    variants = set()

    def arm_info(arm):
        p = arm["pat"]
        while p.get("k") in ("pref", "pderef"):
            p = p["pat"]
        if p.get("k") == "pvariant":
            name = p["path"].split("::")[-1]
            sid = None
            if p.get("subs"):
                b = [i for _, i in pat_bindings(p["subs"][0])]
                sid = b[0] if b else None
            return name, sid
        return None, None

    for d, _ in disp:
        for arm in d["arms"]:
            nm, sid = arm_info(arm)
            if nm and sid is not None:
                variants.add(nm)
    for v in variants:
        lb[v] = INF
    # least fixed point of the entry distances
    for _round in range(12):
        changed = False
        for d, in_loop in disp:
            if not in_loop:
                continue
            for arm in d["arms"]:
                nm, sid = arm_info(arm)
                if nm is None:
                    continue
                base = lb.get(nm, 0) if sid is not None else 0
                if sid is not None and base >= INF:
                    continue                       # state not reachable (yet)
                for inc, nx in m.run_arm(arm["body"], nm, sid, lambda *a: None):
                    if nx is None or nx[1] is None:
                        continue
                    tgt, dd = nx
                    if tgt not in lb:
                        continue
                    val = dd[1] if dd[0] == "abs" else base + (dd[1] if isinstance(dd[1], int) else 0)
                    if val < lb[tgt]:
                        lb[tgt] = val
                        changed = True
        m.unmodelled = []
        if not changed:
            break
    # check the slice sites
    sites = []
    max_inc = 0

    for d, in_loop in disp:
        for arm in d["arms"]:
            nm, sid = arm_info(arm)
            base = lb.get(nm, 0) if sid is not None else 0

            def record(n, variant, inc, k, base=base, nm=nm):
                if variant is None:
                    sites.append({"node": n, "variant": nm, "have": inc, "need": 0, "ok": inc >= 0, "form": "cursor-relative"})
                    return
                if base >= INF:
                    sites.append({"node": n, "variant": nm, "have": None, "need": 0, "ok": True, "form": "unreachable state"})
                    return
                if isinstance(inc, tuple) or k == ("len",):
                    # the cursor was moved to the end of the input (or the range ends at the input length): start <= pos <= len
                    ok = base >= 0 and k in (("len",), 0)
                    sites.append({"node": n, "variant": nm, "have": "len", "need": 0 if k in (("len",), 0) else k, "ok": ok, "form": "to-end"})
                    return
                sites.append({"node": n, "variant": nm, "have": base + inc, "need": k, "ok": base + inc - k >= 0, "form": "start..pos-%d" % k})
            paths = m.run_arm(arm["body"], nm, sid, record)
            if in_loop:
                for inc, _ in paths:
                    if isinstance(inc, int):
                        max_inc = max(max_inc, inc)
    # de-duplicate sites recorded once per path
    uniq = {}
    for s_ in sites:
        key = id(s_["node"])
        if key not in uniq or (uniq[key]["ok"] and not s_["ok"]):
            uniq[key] = s_
    return list(uniq.values()), m.unmodelled, lb, len(disp), max_inc
