"""regenerates psa/known_fns.json from the facts of the current tree (run once when the rules are (re)written against a tree):
python3 -m psa.gen_known"""
import json
import os
from . import facts, norm

fx = facts.load("lib")
out = {}
for c in fx.crates:
    if c.name in ("patronus", "patronus_dse", "patronus_egraphs"):
        for p, fl in c.fns.items():
            out[p] = norm.signature_of(fl[0])
json.dump(out, open(os.path.join(os.path.dirname(os.path.abspath(__file__)), "known_fns.json"), "w"), sort_keys=True, separators=(",", ":"))
print(len(out), "functions")
