"""Inventory of explicit abort sites (todo!/panic!/unreachable!/assert!, unwrap/expect, indexing, unchecked
unsigned decrement) in a set of functions."""
from .tree import *  # noqa
from .flow import Index

ABORT_MACROS = ("todo", "unimplemented", "panic", "unreachable", "assert", "assert_eq", "assert_ne", "debug_assert", "debug_assert_eq", "debug_assert_ne")


def sites(f):
    """list of {kind, what, node, key ordinal-less}"""
    out = []
    seen_mac = set()
    for n, parents in walk_parents(f["body"]):
        c = callee(n) or ""
        k = n.get("k")
        in_dbg = any(m.startswith("debug_assert") for a in (n,) + parents for m in mac_names(a))
        origin = None
        for a in reversed(parents):
            if a.get("k") == "blockexpr" and a.get("inlined_from") and not str(a["inlined_from"]).startswith("closure "):
                origin = str(a["inlined_from"]).split("::")[-1]
                break
        if k in ("call", "mcall") and c.startswith("core::panicking"):
            names = mac_names(n)
            outer = None
            for nm in reversed(names):
                if nm in ABORT_MACROS:
                    outer = nm
                    break
            site = (n.get("mac") or {}).get("site")
            if site in seen_mac:
                continue
            seen_mac.add(site)
            out.append({"kind": "macro", "what": outer or "panic", "node": n, "origin": origin})
        elif k == "mcall" and n["name"] in ("unwrap", "expect") and ("option::Option" in (n.get("path") or "") or "result::Result" in (n.get("path") or "")):
            kind = "unwrap-in-debug_assert" if in_dbg else "unwrap"
            out.append({"kind": kind, "what": n["name"], "node": n, "origin": origin})
        elif k == "index" and not n.get("mac"):
            bt = (n["e"].get("aty") or n["e"].get("ty") or "")
            if "HashMap" in bt or "ExprMap" in bt or "Context" in bt or "SparseExprMap" in bt or "DenseExpr" in bt:
                continue
            out.append({"kind": "index", "what": show(n)[:60], "node": n, "origin": origin})
        elif k == "assignop" and n["op"] in ("-=", "-") and (n["l"].get("ty") or "") in ("u8", "u16", "u32", "u64", "usize", "u128"):
            out.append({"kind": "decrement", "what": show(n)[:60], "node": n, "origin": origin})
    return out


def keyed(fpath, ss):
    cnt = {}
    for s_ in ss:
        # sites that come from an inlined new helper are numbered under the helper's name: the caller's own sites keep their ordinals
        owner = fpath.split("::")[-1] if not s_.get("origin") else "%s>%s" % (fpath.split("::")[-1], s_["origin"])
        base = "%s:%s:%s" % (owner, s_["kind"], s_["what"] if s_["kind"] in ("macro", "unwrap", "unwrap-in-debug_assert") else s_["kind"])
        cnt[base] = cnt.get(base, 0) + 1
        s_["key"] = "%s#%d" % (base, cnt[base])
    return ss


def signature(node, params=()):
    """what an unwrap/expect site unwraps, independent of the function it sits in and of local names:
    the receiver chain as `<base>.<method>..` with the base reduced to `self.<field>`, `param`, a callee name or `?`"""
    recv = node.get("recv", node)
    b, ms = chain(recv)
    names = [m[0] for m in ms]
    b0 = resolve(b)
    fp = field_path(b0)
    if fp and fp[0] == "self":
        base = "self." + ".".join(str(x) for x in fp[2])
    elif b0.get("k") == "local" and any(canon(b0["id"]) == canon(p) for p in params if p is not None):
        base = "param"
    elif b0.get("k") in ("call", "mcall") and callee(b0):
        base = callee(b0).split("::")[-1] + "()"
    elif fp:
        base = "local." + ".".join(str(x) for x in fp[2]) if fp[2] else "local"
    else:
        base = "?"
    args = []
    for m in ms:
        for a in m[1]:
            a0 = resolve(a)
            if a0.get("k") == "local" and any(canon(a0["id"]) == canon(p) for p in params if p is not None):
                args.append("param")
    return base + "".join("." + n for n in names) + ("(%s)" % ",".join(args) if args else "")
