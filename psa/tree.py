"""Utilities over the re-sugared HIR tree view emitted by psa-extract."""


def is_node(x):
    return isinstance(x, dict) and "k" in x


def kids(n):
    """direct child nodes (dicts with 'k'), in source order, looking through arms/fields/lists"""
    out = []

    def add(v):
        if isinstance(v, dict):
            if "k" in v:
                out.append(v)
            else:
                for vv in v.values():
                    add(vv)
        elif isinstance(v, list):
            for vv in v:
                add(vv)

    for key, v in n.items():
        if key in ("mac",):
            continue
        add(v)
    return out


def walk(n, into_closures=True):
    """pre-order over all nodes"""
    stack = [n]
    while stack:
        x = stack.pop()
        if isinstance(x, dict):
            if "k" in x:
                yield x
                if x["k"] == "closure" and not into_closures and x is not n:
                    continue
            for key in reversed(list(x.keys())):
                if key == "mac":
                    continue
                v = x[key]
                if isinstance(v, (dict, list)):
                    stack.append(v)
        elif isinstance(x, list):
            for v in reversed(x):
                if isinstance(v, (dict, list)):
                    stack.append(v)


def walk_parents(n):
    """pre-order yielding (node, parents tuple) for nodes with 'k'"""
    def rec(x, parents):
        if isinstance(x, dict):
            if "k" in x:
                yield x, parents
                parents = parents + (x,)
            for key, v in x.items():
                if key == "mac":
                    continue
                if isinstance(v, (dict, list)):
                    yield from rec(v, parents)
        elif isinstance(x, list):
            for v in x:
                if isinstance(v, (dict, list)):
                    yield from rec(v, parents)
    yield from rec(n, ())


def callee(n):
    """resolved callee path of a call / mcall / overloaded operator node"""
    if n.get("k") in ("call", "mcall", "ctor"):
        return n.get("res") or n.get("path")
    if n.get("k") in ("binary", "index", "unary"):
        return n.get("res") or n.get("ovl")
    return None


def decl_callee(n):
    if n.get("k") in ("call", "mcall", "ctor"):
        return n.get("path")
    return n.get("ovl")


def call_args(n):
    """all arguments including the receiver first"""
    if n["k"] == "mcall":
        return [n["recv"]] + n["args"]
    return n.get("args", [])


def _transparent_block(n):
    """a block that is only its tail: no statements, or (an inlined helper call) only the parameter bindings"""
    return n.get("k") == "blockexpr" and "tail" in n["b"] and all(s.get("inl_param") for s in n["b"]["stmts"])


def peel(n):
    """look through parentheses-like wrappers: block with only a tail, & / &mut, *, casts are kept"""
    while True:
        k = n.get("k")
        if k == "blockexpr" and _transparent_block(n):
            n = n["b"]["tail"]
        elif k == "ref":
            n = n["e"]
        elif k == "unary" and n["op"] == "*" and "ovl" not in n:
            n = n["e"]
        else:
            return n


def peel_block(n):
    while n.get("k") == "blockexpr" and _transparent_block(n):
        n = n["b"]["tail"]
    return n


def mac_names(n):
    m = n.get("mac")
    if m and "names" in m:
        return m["names"]
    return []


def in_macro(n, name):
    return name in mac_names(n)


def short(p):
    """last two segments of a path, for display"""
    if not p:
        return "?"
    parts = p.split("::")
    return "::".join(parts[-2:])


def show(n, depth=0):
    """compact Rust-like rendering of a node (for reports and structural comparison)"""
    if n is None:
        return "_"
    if depth > 12:
        return "..."
    k = n.get("k")
    d = depth + 1
    if k == "local":
        return n["name"]
    if k == "def":
        return short(n.get("path", "?"))
    if k == "lit":
        v = n.get("v")
        if n.get("lk") == "str":
            return '"%s"' % v
        if n.get("lk") == "bytestr":
            return 'b"%s"' % v
        if n.get("lk") == "char":
            return "'%s'" % v
        if n.get("lk") == "byte":
            return "b'%s'" % chr(v) if isinstance(v, int) and 32 <= v < 127 else "b%s" % v
        if isinstance(v, bool):
            return "true" if v else "false"
        return str(v)
    if k in ("call", "ctor"):
        return "%s(%s)" % (short(callee(n)), ", ".join(show(a, d) for a in n["args"]))
    if k == "callv":
        return "(%s)(%s)" % (show(n["f"], d), ", ".join(show(a, d) for a in n["args"]))
    if k == "mcall":
        return "%s.%s(%s)" % (show(n["recv"], d), n["name"], ", ".join(show(a, d) for a in n["args"]))
    if k == "field":
        return "%s.%s" % (show(n["e"], d), n["name"])
    if k == "index":
        return "%s[%s]" % (show(n["e"], d), show(n["i"], d))
    if k == "unary":
        return "%s%s" % (n["op"], show(n["e"], d))
    if k == "binary":
        return "(%s %s %s)" % (show(n["l"], d), n["op"], show(n["r"], d))
    if k == "ref":
        return "&%s%s" % ("mut " if n.get("mut") else "", show(n["e"], d))
    if k == "cast":
        return "(%s as %s)" % (show(n["e"], d), n.get("ty"))
    if k == "try":
        return "%s?" % show(n["e"], d)
    if k == "tuple":
        return "(%s)" % ", ".join(show(a, d) for a in n["es"])
    if k == "array":
        return "[%s]" % ", ".join(show(a, d) for a in n["es"])
    if k == "struct":
        return "%s { %s }" % (short(n["path"]), ", ".join("%s: %s" % (f["name"], show(f["e"], d)) for f in n["fields"]))
    if k == "blockexpr":
        b = n["b"]
        parts = [show(s_, d) for s_ in b["stmts"]]
        if "tail" in b:
            parts.append(show(b["tail"], d))
        return "{ %s }" % "; ".join(parts)
    if k == "semi":
        return show(n["e"], d)
    if k == "let":
        return "let %s = %s" % (show_pat(n["pat"]), show(n.get("init"), d))
    if k == "letexpr":
        return "let %s = %s" % (show_pat(n["pat"]), show(n.get("init"), d))
    if k == "if":
        s_ = "if %s %s" % (show(n["cond"], d), show(n["then"], d))
        if "else" in n:
            s_ += " else %s" % show(n["else"], d)
        return s_
    if k == "match":
        return "match %s { %s }" % (show(n["scrut"], d), ", ".join(
            "%s%s => %s" % (show_pat(a["pat"]), (" if " + show(a["guard"], d)) if "guard" in a else "", show(a["body"], d)) for a in n["arms"]))
    if k == "closure":
        return "|%s| %s" % (", ".join(show_pat(p) for p in n["params"]), show(n["body"], d))
    if k == "for":
        return "for %s in %s %s" % (show_pat(n["pat"]), show(n["iter"], d), show(n["body"], d))
    if k == "while":
        return "while %s %s" % (show(n["cond"], d), show(n["body"], d))
    if k == "loop":
        return "loop %s" % show({"k": "blockexpr", "b": n["body"]}, d)
    if k == "assign":
        return "%s = %s" % (show(n["l"], d), show(n["r"], d))
    if k == "assignop":
        return "%s %s %s" % (show(n["l"], d), n["op"] if n["op"].endswith("=") else n["op"] + "=", show(n["r"], d))
    if k == "return":
        return "return %s" % (show(n["e"], d) if "e" in n else "")
    if k == "ireturn":
        return "return' %s" % (show(n["e"], d) if "e" in n else "")
    if k == "break":
        return "break"
    if k == "continue":
        return "continue"
    if k == "block":
        return show({"k": "blockexpr", "b": n}, d)
    return "<%s>" % k


def show_pat(p):
    k = p.get("k")
    if k == "pwild":
        return "_"
    if k == "pbind":
        s_ = p["name"]
        if "sub" in p:
            s_ += " @ " + show_pat(p["sub"])
        return s_
    if k == "pvariant":
        subs = [show_pat(x) for x in p["subs"]]
        if p.get("rest"):
            subs.insert(p.get("restpos", len(subs)), "..")
        return "%s(%s)" % (short(p["path"]), ", ".join(subs)) if (subs or p.get("rest")) else short(p["path"])
    if k == "pstruct":
        fs = ["%s: %s" % (f["name"], show_pat(f["pat"])) for f in p["fields"]]
        if p.get("rest"):
            fs.append("..")
        return "%s { %s }" % (short(p["path"]), ", ".join(fs))
    if k == "ptuple":
        return "(%s)" % ", ".join(show_pat(x) for x in p["subs"])
    if k == "por":
        return " | ".join(show_pat(x) for x in p["alts"])
    if k in ("pref", "pderef"):
        return "&" + show_pat(p["pat"])
    if k == "plit":
        v = p.get("v")
        if p.get("lk") == "str":
            return '"%s"' % v
        if p.get("lk") == "bytestr":
            return 'b"%s"' % v
        return str(v)
    if k == "pslice":
        parts = [show_pat(x) for x in p["before"]]
        if "mid" in p:
            parts.append(show_pat(p["mid"]) + "..")
        parts += [show_pat(x) for x in p["after"]]
        return "[%s]" % ", ".join(parts)
    if k == "pconst":
        return short(p["path"])
    if k == "prange":
        return "range"
    return "<%s>" % k


def pat_alts(p):
    """expand top-level or-patterns"""
    if p.get("k") == "por":
        out = []
        for a in p["alts"]:
            out += pat_alts(a)
        return out
    if p.get("k") in ("pref", "pderef"):
        return pat_alts(p["pat"])
    if p.get("k") == "pbind" and "sub" in p:
        return pat_alts(p["sub"])        # `x @ (A | B)`: the alternatives are those of the sub-pattern (the name is bound in every one)
    return [p]


def pat_bindings(p):
    """all (name, id) bound by a pattern"""
    out = []
    stack = [p]
    while stack:
        x = stack.pop()
        if isinstance(x, dict):
            if x.get("k") == "pbind":
                out.append((x["name"], x["id"]))
            for v in x.values():
                if isinstance(v, (dict, list)):
                    stack.append(v)
        elif isinstance(x, list):
            stack.extend(x)
    return out


def variant_fields(p):
    """for a pvariant/pstruct pattern: map field key (index or name) -> sub-pattern"""
    if p["k"] == "pvariant":
        return {i: sp for i, sp in enumerate(p["subs"])}
    if p["k"] == "pstruct":
        return {f["name"]: f["pat"] for f in p["fields"]}
    return {}


def stmts_of(body):
    """list of statements (+ tail) of a blockexpr/block node"""
    if body.get("k") == "blockexpr":
        body = body["b"]
    if body.get("k") != "block":
        return [body]
    out = list(body["stmts"])
    if "tail" in body:
        out.append(body["tail"])
    return out


def unsemi(n):
    return n["e"] if n.get("k") == "semi" else n


def find_calls(n, pred, into_closures=True):
    """all call-like nodes whose resolved or declared callee satisfies pred(path)"""
    out = []
    for x in walk(n, into_closures):
        c = callee(x)
        if c is not None and (pred(c) or (x.get("path") and pred(x["path"]))):
            out.append(x)
    return out


def ends(path, suffix):
    return path == suffix or path.endswith("::" + suffix)


def locals_used(n):
    return {(x["name"], x["id"]) for x in walk(n) if x.get("k") == "local"}


def contains(n, target):
    for x in walk(n):
        if x is target:
            return True
    return False


def local_defs(f):
    """id -> ('param'|'let'|'for'|'arm'|'closure', defining node, pattern) for plain bindings"""
    out = {}
    for p in f.get("params", []):
        for name, i in pat_bindings(p):
            out[i] = ("param", None, p)
    for n in walk(f["body"]):
        k = n.get("k")
        if k == "let":
            for name, i in pat_bindings(n["pat"]):
                out[i] = ("let", n, n["pat"])
        elif k == "letexpr":
            for name, i in pat_bindings(n["pat"]):
                out[i] = ("letexpr", n, n["pat"])
        elif k == "for":
            for name, i in pat_bindings(n["pat"]):
                out[i] = ("for", n, n["pat"])
        elif k == "match":
            for arm in n["arms"]:
                for name, i in pat_bindings(arm["pat"]):
                    out[i] = ("arm", n, arm["pat"])
        elif k == "closure":
            for p in n["params"]:
                for name, i in pat_bindings(p):
                    out[i] = ("closure", n, p)
    DEFS_BODY[id(out)] = f["body"]
    return out


DEFS_BODY = {}     # id(defs dict) -> the function body it was computed from

MUTATORS = ("push", "pop", "insert", "remove", "clear", "truncate", "extend", "extend_from_slice", "retain", "retain_mut", "append", "drain", "swap_remove", "sort", "sort_by",
            "sort_by_key", "sort_unstable", "sort_unstable_by", "sort_unstable_by_key", "reverse", "dedup", "dedup_by", "dedup_by_key", "swap", "rotate_left", "rotate_right",
            "resize", "split_off", "fill", "iter_mut", "as_mut_slice", "last_mut", "first_mut", "get_mut")


def mutated_after_init(defs, lid):
    """is the `let mut` local lid changed after its initialisation (assigned, borrowed mutably, or the receiver of a mutating collection method)?
    None when the function body is not known."""
    body = DEFS_BODY.get(id(defs))
    if body is None:
        return None
    for n in walk(body):
        k = n.get("k")
        if k in ("assign", "assignop"):
            l = n["l"]
            while isinstance(l, dict) and l.get("k") in ("index", "field", "unary", "paren"):
                l = l["e"]
            if isinstance(l, dict) and l.get("k") == "local" and l["id"] == lid:
                return True
        if k == "mcall" and n["name"] in MUTATORS:
            r = n["recv"]
            while isinstance(r, dict) and r.get("k") in ("ref", "paren", "field", "index"):
                r = r["e"]
            if isinstance(r, dict) and r.get("k") == "local" and r["id"] == lid:
                return True
        if k == "ref" and n.get("mut") and isinstance(n.get("e"), dict) and n["e"].get("k") == "local" and n["e"]["id"] == lid:
            return True
    return False


def simple_let_init(defs, i):
    """init expression of `let x = init` when x is a plain (non-destructuring) binding"""
    d = defs.get(i)
    if d and d[0] == "let" and d[2].get("k") == "pbind" and "init" in d[1]:
        init = d[1]["init"]
        # look through immutable re-bindings (`let a = b;`, parameters of inlined helpers)
        for _ in range(6):
            x = peel(init)
            if x.get("k") != "local":
                break
            d2 = defs.get(x["id"])
            if not (d2 and d2[0] == "let" and d2[2].get("k") == "pbind" and not d2[2].get("mut") and "init" in d2[1] and "els" not in d2[1]):
                break
            init = d2[1]["init"]
        return init
    return None


def strip_try(n):
    """look through `?`, refs, derefs and trivial blocks"""
    while True:
        n = peel(n)
        if n.get("k") == "try":
            n = n["e"]
        else:
            return n


def chain(n):
    """flatten a method chain a.m1(..).m2(..) into (base, [(name, args, node), ...])"""
    ms = []
    n = strip_try(n)
    while n.get("k") == "mcall":
        ms.append((n["name"], n["args"], n))
        n = strip_try(n["recv"])
    ms.reverse()
    return n, ms


# trivial re-bindings (`let x = y`, parameters of inlined helpers): id -> id it stands for (filled by psa.norm)
ALIASES = {}


# non-mut single-binding lets: id -> init expression (filled by psa.norm); lets rules look through `let old = &ctx[r];`
LET_INITS = {}
# constant items of the analysed crates: path -> initialiser expression (filled when the facts are loaded)
CONSTS = {}


def canon(i):
    return ALIASES.get(i, i)


def conjuncts(c):
    """the `&&` conjuncts of a condition, looking through immutable bool locals"""
    c = resolve(c)
    if c.get("k") == "binary" and c["op"] == "&&":
        return conjuncts(c["l"]) + conjuncts(c["r"])
    return [c]


def is_eq_test(c, local, path_suffix, op="=="):
    """c is `local == <path>` (either order) for a unit variant / constant whose path ends with path_suffix"""
    c = resolve(c)
    if c.get("k") != "binary" or c["op"] != op:
        return False
    for a, b in ((c["l"], c["r"]), (c["r"], c["l"])):
        b = peel(b)
        if is_local(a, local) and b.get("k") in ("def", "ctor") and (callee(b) or b.get("path", "")).endswith(path_suffix):
            return True
    return False


def param_ids(f):
    """ids of the plain parameter bindings by position (None for destructured parameters)"""
    out = []
    for p in f["params"]:
        b = pat_bindings(p)
        out.append(b[0][1] if len(b) == 1 else None)
    return out


def _simple_const(e, d=0):
    e = peel(e)
    if e.get("k") == "lit":
        return True
    if e.get("k") == "ctor" and d < 3:
        return all(_simple_const(a, d + 1) for a in e.get("args", []))
    return False


def resolve(n, depth=6):
    """n with reference/deref sugar peeled and immutable single-binding locals replaced by their initialiser"""
    n = peel(n)
    while depth > 0:
        if n.get("k") == "local" and n["id"] in LET_INITS:
            n = peel(LET_INITS[n["id"]])
        elif n.get("k") == "def" and n.get("path") in CONSTS and _simple_const(peel(CONSTS[n["path"]])):
            n = peel(CONSTS[n["path"]])      # a named constant: a literal or a constructor over literals
        else:
            break
        depth -= 1
    return n


def is_local(n, i=None):
    n = peel(n)
    return n.get("k") == "local" and (i is None or n["id"] == i or (i is not None and canon(n["id"]) == canon(i)))


def local_id(n):
    n = peel(n)
    return canon(n["id"]) if n.get("k") == "local" else None


def field_path(n):
    """a.b.c -> ('a', id, ['b','c']) for field accesses rooted at a local"""
    fs = []
    n = peel(n)
    while n.get("k") == "field":
        fs.append(n["name"])
        n = peel(n["e"])
    if n.get("k") == "local":
        return (n["name"], n["id"], list(reversed(fs)))
    return None


def anyshow(body, needle):
    """does some node of body render (spaces removed) to text containing `needle`?  (show() is depth-limited, so a
    fragment deep inside a large body is only visible when rendering starts near it)"""
    for n in walk(body):
        if needle in show(n).replace(" ", ""):
            return True
    return False
