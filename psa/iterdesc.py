"""Element descriptors for loops and iterator pipelines: which element of which collection a binding stands for.

A descriptor is a nested tuple:
  ("elem", "<base>.<field path>")        an element of that collection (e.g. "self.sys.states")
  ("field", d, name)                      a field of d
  ("payload", d)                          the value inside an Option d (bound by `if let Some(x) = d`, `d.map(|x| ..)`, `let Some(x) = d else`)
  ("tuple", d0, d1, ..)                   a tuple
  ("index",)                              an enumerate index
  ("call", callee path, d_args..)         the result of a call on described values (used for eval_expr)
  ("opt", d)                              Some(d) for the elements that exist (result of Option::map); filter_map strips it
  ("?", text)                             anything else
An iteration source is described by (alternatives, filtered): a list of element descriptors (a `chain` of sources gives several, in order) and whether
elements may have been dropped (filter / filter_map / skip / take / a `continue` in a building loop ...)."""
from .tree import *  # noqa
from . import norm

PASS = ("iter", "iter_mut", "into_iter", "copied", "cloned", "by_ref", "as_slice", "to_vec", "clone", "as_ref", "borrow")
DROPPING = ("filter", "skip", "take", "step_by", "skip_while", "take_while", "rev", "flatten", "flat_map", "dedup", "peekable")


class Desc:
    def __init__(self, ix, defs, call_names=()):
        self.ix = ix
        self.defs = defs
        self.call_names = call_names      # callee paths whose results are described as ("call", ..)
        self.env = {}                     # binding id -> descriptor (filled lazily)
        self._busy = set()

    # ---- expressions -----------------------------------------------------------------------------------------
    def of(self, e, env=None, depth=0):
        env = env if env is not None else {}
        if depth > 12:
            return ("?", "deep")
        e0 = e
        e = strip_try(e)
        k = e.get("k")
        if k == "local":
            if e["id"] in env:
                return env[e["id"]]
            return self.of_binding(e["id"], depth + 1)
        if k == "field":
            fp = field_path(e)
            if fp and fp[0] == "self":
                return ("place", "self." + ".".join(str(x) for x in fp[2]))
            return ("field", self.of(e["e"], env, depth + 1), e["name"])
        if k == "tuple":
            return ("tuple",) + tuple(self.of(x, env, depth + 1) for x in e["es"])
        if k == "ctor" and callee(e).endswith("Option::Some") and len(e["args"]) == 1:
            return ("opt", self.of(e["args"][0], env, depth + 1))
        if k == "call" and callee(e) in self.call_names:
            return ("call", callee(e)) + tuple(self.of(a, env, depth + 1) for a in e["args"])
        if k == "mcall":
            if e["name"] in ("clone", "copied", "cloned", "as_ref", "borrow", "to_owned") and not e["args"]:
                return self.of(e["recv"], env, depth + 1)
            if e["name"] == "map" and "Option" in (e.get("path") or "") and len(e["args"]) == 1:
                cl = resolve(e["args"][0])
                inner = self.of(e["recv"], env, depth + 1)
                if cl.get("k") == "closure" and len(cl["params"]) == 1:
                    env2 = dict(env)
                    self.bind(cl["params"][0], ("payload", inner), env2)
                    return ("opt", self.of(cl["body"], env2, depth + 1))
                if cl.get("k") == "def" and (cl.get("path") or "").endswith("Option::Some"):
                    return ("opt", ("opt", ("payload", inner)))
        if k in ("match", "if"):
            # `match o { Some(x) => f(x), None => None / continue }` is `o.map(f)` / the payload on the path that goes on
            oe = norm.opt_elim(e)
            if oe is not None and oe["none"] is not None:
                nn = norm.tail_value(oe["none"])
                none_is_none = nn.get("k") == "def" and (nn.get("path") or "").endswith("Option::None")
                if none_is_none or norm._diverges(oe["none"]) or nn.get("ty") == "!":
                    inner = self.of(oe["scrut"], env, depth + 1)
                    env2 = dict(env)
                    if oe["bind"] is not None:
                        env2[oe["bind"]] = ("payload", inner)
                    if oe["some"] is None:
                        return ("payload", inner)
                    return self.of(oe["some"], env2, depth + 1)
        if k == "blockexpr":
            env2 = dict(env)
            for s_ in e["b"]["stmts"]:
                s_ = unsemi(s_)
                if s_.get("k") == "let" and "init" in s_:
                    self.bind(s_["pat"], self.of(s_["init"], env2, depth + 1), env2)
            if "tail" in e["b"]:
                return self.of(e["b"]["tail"], env2, depth + 1)
        return ("?", show(e)[:40])

    def bind(self, pat, d, env):
        """destructure descriptor d along pat into env"""
        while pat.get("k") in ("pref", "pderef"):
            pat = pat["pat"]
        k = pat.get("k")
        if k == "pbind":
            env[pat["id"]] = d
            if "sub" in pat:
                self.bind(pat["sub"], d, env)
        elif k == "ptuple":
            for i, sp in enumerate(pat["subs"]):
                self.bind(sp, d[i + 1] if d[0] == "tuple" and len(d) > i + 1 else ("?", "tuple element"), env)
        elif k == "pvariant" and pat["path"].endswith("Option::Some") and len(pat["subs"]) == 1:
            self.bind(pat["subs"][0], d[1] if d[0] == "opt" else ("payload", d), env)
        elif k == "pstruct":
            for f in pat["fields"]:
                self.bind(f["pat"], ("field", d, f["name"]), env)

    def of_binding(self, bid, depth=0):
        if bid in self.env:
            return self.env[bid]
        if bid in self._busy:
            return ("?", "cyclic")
        self._busy.add(bid)
        try:
            d = self.defs.get(bid) or self.defs.get(canon(bid))
            out = ("?", "binding")
            if d is not None:
                kind, node, pat = d
                env = {}
                if kind == "let" and "init" in node:
                    self.bind(node["pat"], self.of(node["init"], {}, depth + 1), env)
                elif kind == "letexpr":
                    self.bind(node["pat"], self.of(node["init"], {}, depth + 1), env)
                elif kind == "arm":
                    for arm in node["arms"]:
                        if any(i == bid for _, i in pat_bindings(arm["pat"])):
                            self.bind(arm["pat"], self.of(node["scrut"], {}, depth + 1), env)
                elif kind == "for":
                    alts, _ = self.source(node["iter"], depth + 1)
                    if len(alts) >= 1:
                        # a chained source: the binding stands for an element of any of them; keep all as ("oneof", ..)
                        dd = alts[0] if len(alts) == 1 else ("oneof",) + tuple(alts)
                        self.bind(node["pat"], dd, env)
                elif kind == "closure":
                    par = self.ix.parent.get(id(node))
                    while par is not None and par.get("k") == "ref":
                        par = self.ix.parent.get(id(par))
                    if par is not None and par.get("k") == "mcall" and par["name"] in ("map", "for_each", "filter_map", "filter", "try_for_each", "inspect", "any", "all") and len(node["params"]) == 1:
                        if "Option" in (par.get("path") or "") or "Result" in (par.get("path") or ""):
                            self.bind(node["params"][0], ("payload", self.of(par["recv"], {}, depth + 1)), env)
                        else:
                            alts, _ = self.source(par["recv"], depth + 1)
                            if alts:
                                self.bind(node["params"][0], alts[0] if len(alts) == 1 else ("oneof",) + tuple(alts), env)
                out = env.get(bid, out)
                for i, v in env.items():
                    self.env.setdefault(i, v)
            self.env[bid] = out
            return out
        finally:
            self._busy.discard(bid)

    # ---- iteration sources -----------------------------------------------------------------------------------
    def source(self, e, depth=0):
        """([element descriptor ..], filtered)"""
        if depth > 12:
            return [("?", "deep")], True
        e = strip_try(e)
        # std::iter::zip(a, b)
        if e.get("k") == "call" and (callee(e) or "").endswith("iter::zip") and len(e["args"]) == 2:
            (a, fa), (b, fb) = self.source(e["args"][0], depth + 1), self.source(e["args"][1], depth + 1)
            return [("tuple", a[0] if len(a) == 1 else ("?", "chain"), b[0] if len(b) == 1 else ("?", "chain"))], fa or fb
        base, ms = chain(e)
        base = peel(base)
        filtered = False
        if base.get("k") == "local":
            d = self.defs.get(base["id"]) or self.defs.get(canon(base["id"]))
            if d and d[0] == "let" and "init" in d[1] and d[2].get("k") == "pbind":
                bl = norm.built_by_loop(self.ix, self.defs, base["id"]) if d[2].get("mut") else None
                if bl is not None:
                    alts, filtered = self._built(bl, depth)
                else:
                    lb = self._loop_built_permissive(base["id"], depth) if d[2].get("mut") else None
                    if lb is not None:
                        alts, filtered = lb
                    else:
                        alts, filtered = self.source(d[1]["init"], depth + 1)
            else:
                # a binding that stands for a collection itself: `for list in [&mut self.a, &mut self.b] { for x in list.iter_mut() ..`
                bd = self.of_binding(base["id"], depth + 1)
                cands = list(bd[1:]) if bd[0] == "oneof" else [bd]
                if cands and all(isinstance(x, tuple) and x[0] == "place" for x in cands):
                    alts = [("elem", x[1]) for x in cands]
                else:
                    alts = [("elem", "local:%s" % base.get("name"))]
        elif base.get("k") == "field":
            fp = field_path(base)
            alts = [("elem", ("self." if fp and fp[0] == "self" else (fp[0] + "." if fp else "?.")) + ".".join(str(x) for x in (fp[2] if fp else [])))]
        elif base.get("k") == "array":
            alts = [self.of(x) for x in base["es"]]
        elif base.get("k") == "blockexpr" and "tail" in base["b"]:
            # the value of a block (e.g. an inlined helper that builds and returns a vector)
            alts, filtered = self.source(base["b"]["tail"], depth + 1)
        else:
            alts = [("?", show(base)[:40])]
        for name, args, node in ms:
            if name in PASS:
                continue
            if name == "enumerate":
                alts = [("tuple", ("index",), a) for a in alts]
            elif name in ("map", "filter_map") and len(args) == 1:
                cl = resolve(args[0])
                if cl.get("k") != "closure" or len(cl["params"]) != 1:
                    alts = [("?", "mapped by a function")]
                    continue
                new = []
                for a in alts:
                    env = {}
                    self.bind(cl["params"][0], a, env)
                    r = self.of(cl["body"], env, depth + 1)
                    if name == "filter_map":
                        r = r[1] if r[0] == "opt" else ("?", "filter_map result")
                    new.append(r)
                alts = new
                filtered = filtered or name == "filter_map"
            elif name == "chain" and len(args) == 1:
                other, fo = self.source(args[0], depth + 1)
                alts = alts + other
                filtered = filtered or fo
            elif name == "zip" and len(args) == 1:
                other, fo = self.source(args[0], depth + 1)
                alts = [("tuple", alts[0] if len(alts) == 1 else ("?", "chain"), other[0] if len(other) == 1 else ("?", "chain"))]
                filtered = filtered or fo
            elif name in DROPPING:
                filtered = True
            elif name in ("collect", "unwrap", "expect"):
                continue
            else:
                alts = [("?", "." + name)]
        return alts, filtered

    def _built(self, bl, depth):
        it, pat, el, lp = bl
        alts, filtered = self.source(it, depth + 1)
        out = []
        for a in alts:
            env = {}
            self.bind(pat, a, env)
            out.append(self.of(el, env, depth + 1))
        return out, filtered

    def _loop_built_permissive(self, vid, depth):
        """a vector filled by one `v.push(E)` inside one `for` loop, possibly skipping elements (`continue`, conditional push): filtered"""
        pushes = [n for n in self.ix.nodes if n.get("k") == "mcall" and n["name"] == "push" and is_local(n["recv"], vid)]
        muts = [n for n in self.ix.nodes if n.get("k") == "mcall" and peel(n["recv"]).get("k") == "local" and canon(peel(n["recv"])["id"]) == canon(vid)
                and n["name"] in ("push", "pop", "insert", "remove", "clear", "truncate", "extend", "extend_from_slice", "retain", "append", "drain", "swap_remove", "sort", "reverse", "dedup")]
        if len(pushes) != 1 or len(muts) != 1:
            return None
        lp = self.ix.enclosing(pushes[0], ("for",))
        if lp is None or self.ix.enclosing(pushes[0], ("for", "while", "loop")) is not lp:
            return None
        if any(x.get("k") in ("break", "return") for x in walk(lp["body"])):
            return None
        alts, _ = self.source(lp["iter"], depth + 1)
        out = []
        for a in alts:
            env = {}
            self.bind(lp["pat"], a, env)
            for i, v in env.items():
                self.env.setdefault(i, v)
            out.append(self.of(pushes[0]["args"][0], env, depth + 1))
        return out, True


def mentions(d, what):
    """does descriptor d contain sub-descriptor `what`"""
    if d == what:
        return True
    if isinstance(d, tuple):
        return any(mentions(x, what) for x in d[1:] if isinstance(x, tuple))
    return False
