"""Shared sibling tables T0 (variant universe) and T1 (child order), and the match-arm extractor."""
from .tree import *  # noqa
from .core import AnchorMissing

EXPR = "patronus::expr::nodes::Expr"
EXPR_REF = "patronus::expr::context::ExprRef"
FOR_EACH_CHILD = "<patronus::expr::nodes::Expr as patronus::expr::foreach::ForEachChild<patronus::expr::context::ExprRef>>::for_each_child"
NUM_CHILDREN = "<patronus::expr::nodes::Expr as patronus::expr::foreach::ForEachChild<patronus::expr::context::ExprRef>>::num_children"

COMMUTATIVE = {"BVEqual", "BVAnd", "BVOr", "BVXor", "BVAdd", "BVMul", "ArrayEqual"}


def vname(path):
    return path.split("::")[-1]


def field_key(f, i):
    """tuple-like variants have fields named "0","1",..: use ints for those"""
    n = f["name"]
    return int(n) if n.isdigit() else n


class T0:
    """variant universe of enum Expr, from the type definition"""

    def __init__(self, ctx):
        c = ctx.facts.lib("patronus")
        adt = c.adts.get(EXPR)
        if adt is None:
            ctx.inst("ANCHOR", "missing:" + EXPR, False, None, "enum Expr not found", nontrivial=False)
            raise AnchorMissing(EXPR)
        self.variants = {}   # name -> dict(fields=[(key, ty)], child_keys=[..], attr_keys=[..])
        self.order = []
        for v in adt["variants"]:
            fields = [(field_key(f, i), f["ty"]) for i, f in enumerate(v["fields"])]
            self.variants[v["name"]] = {
                "path": v["path"],
                "fields": fields,
                "child_keys": [k for k, t in fields if t == EXPR_REF],
                "attr_keys": [k for k, t in fields if t != EXPR_REF],
                "ctor": v["ctor"],
            }
            self.order.append(v["name"])
        ctx.floor("T0", "variants of enum Expr", len(self.variants), 35)


def match_arms(m):
    """rows of a match: list of (alt_pattern, arm) with or-patterns expanded"""
    rows = []
    for arm in m["arms"]:
        for alt in pat_alts(arm["pat"]):
            rows.append((alt, arm))
    return rows


def variant_pat(p):
    """(variant path, {field key: sub pattern}, has_rest) for a variant pattern (through refs), else None"""
    while p.get("k") in ("pref", "pderef"):
        p = p["pat"]
    if p.get("k") == "pbind" and "sub" in p:
        return variant_pat(p["sub"])
    if p.get("k") == "pvariant":
        return p["path"], {i: sp for i, sp in enumerate(p["subs"])}, p.get("rest", False)
    if p.get("k") == "pstruct":
        keys = {}
        for f in p["fields"]:
            n = f["name"]
            keys[int(n) if n.isdigit() else n] = f["pat"]
        return p["path"], keys, p.get("rest", False)
    return None


def binding_of(p):
    """(name, id) if the pattern is a plain binding (through refs)"""
    while p.get("k") in ("pref", "pderef"):
        p = p["pat"]
    if p.get("k") == "pbind" and "sub" not in p:
        return (p["name"], p["id"])
    return None


def find_match_on(fn_body, pred):
    """first match node (pre-order) whose scrutinee satisfies pred"""
    for n in walk(fn_body):
        if n.get("k") == "match" and n.get("src") == "match" and pred(n["scrut"]):
            return n
    return None


def is_self_expr(n):
    n = peel(n)
    return n.get("k") == "local" and n.get("name") == "self"


class T1:
    """child order: variant -> ordered list of field keys visited by for_each_child"""

    def __init__(self, ctx, t0):
        from . import peval
        f = ctx.fn("patronus", FOR_EACH_CHILD)
        visitor = None
        for p in f["params"]:
            if p.get("k") == "pbind" and p["name"] != "self":
                visitor = (p["name"], p["id"])
        self.order = {}
        if visitor is None:
            ctx.inst("T1", "for_each_child:shape", False, f["span"], "UNRECOGNISED: for_each_child has no visitor parameter")
            raise AnchorMissing("T1")
        # per variant: partially evaluate the body with `self` known to be that variant and read the visitor calls off the trace
        for name, info in t0.variants.items():
            pe = peval.PEval(is_self_expr, info["path"])
            try:
                pe.run(f)
            except peval.Stuck as ex:
                ctx.inst("T1", "for_each_child:%s" % name, False, f["span"], "UNRECOGNISED: the children visited for %s could not be determined (%s)" % (name, ex))
                continue
            visits, ok = [], True
            for kind, target, args in pe.trace:
                if kind == "callv" and target == ("local", canon(visitor[1])):
                    a = args[0] if args else None
                    if isinstance(a, tuple) and a[0] == "attr":
                        visits.append(a[1])
                    else:
                        ok = False
            if not ok:
                ctx.inst("T1", "for_each_child:%s" % name, False, f["span"], "UNRECOGNISED: for %s the visitor is called on something that is not a field of the node" % name)
                continue
            self.order[name] = visits
        # T1 obligations: every variant visited = its ExprRef fields, each once
        for name, info in t0.variants.items():
            if name not in self.order:
                continue
            got = self.order[name]
            ctx.inst("T1", "for_each_child:%s" % name, sorted(map(str, got)) == sorted(map(str, info["child_keys"])) and len(set(got)) == len(got), f["span"],
                     "for_each_child visits fields %s of %s, but its ExprRef fields are %s" % (got, name, info["child_keys"]),
                     sample={"variant": name, "visit_order": got})
        # num_children
        nf = ctx.fn_opt("patronus", NUM_CHILDREN)
        if nf is not None:
            for name, info in t0.variants.items():
                if name not in self.order:
                    continue
                pe = peval.PEval(is_self_expr, info["path"])
                try:
                    v = pe.run(nf)
                except peval.Stuck:
                    continue
                if isinstance(v, tuple) and v[0] == "lit":
                    ctx.inst("T1", "num_children:%s" % name, v[1] == len(self.order[name]), nf["span"],
                             "num_children(%s) = %s but for_each_child visits %d children" % (name, v[1], len(self.order[name])))


def eval_variant_pred(body, pid, variant_path, depth=0, get_fn=None):
    """value of a bool-valued function body for an argument that is the given variant of an enum (fields unknown):
    True / False, or None when it depends on anything else.  Understands match / matches! on the parameter, bool literals,
    && || !, immutable bool lets, if/else, early `return`s (also of inlined helpers)."""
    class Ret(Exception):
        def __init__(self, v):
            self.v = v

    def pat_matches(pat):
        """True / False / None"""
        res = False
        for alt in pat_alts(pat):
            while alt.get("k") in ("pref", "pderef"):
                alt = alt["pat"]
            if alt.get("k") in ("pwild",) or (alt.get("k") == "pbind" and "sub" not in alt):
                return True
            vp = variant_pat(alt)
            if vp is None:
                return None
            if vp[0] == variant_path:
                # sub-patterns must be irrefutable for a definite answer
                for sp in vp[1].values():
                    x = sp
                    while x.get("k") in ("pref", "pderef"):
                        x = x["pat"]
                    if not (x.get("k") == "pwild" or (x.get("k") == "pbind" and "sub" not in x)):
                        return None
                return True
        return res

    subj = {pid}        # the parameter and the catch-all bindings of matches on it (`other => helper(other)`)

    def is_subj(x):
        x = peel(x)
        return x.get("k") == "local" and (x["id"] in subj or canon(x["id"]) in subj)

    def ev(e, d):
        if d > 40:
            return None
        e = resolve(e)
        k = e.get("k")
        if k == "lit" and isinstance(e.get("v"), bool):
            return e["v"]
        if k == "call" and get_fn is not None and depth < 4 and len(e.get("args", [])) == 1 and is_subj(e["args"][0]):
            # a shared bool helper applied to the same value: evaluated for the same variant
            g = get_fn(callee(e) or "")
            if g is not None and len(g.get("params", [])) == 1:
                gb = pat_bindings(g["params"][0])
                if len(gb) == 1:
                    return eval_variant_pred(g["body"], gb[0][1], variant_path, depth + 1, get_fn)
            return None
        if k == "unary" and e["op"] == "!":
            v = ev(e["e"], d + 1)
            return None if v is None else (not v)
        if k == "binary" and e["op"] in ("&&", "||"):
            a, b = ev(e["l"], d + 1), ev(e["r"], d + 1)
            if e["op"] == "&&":
                if a is False or b is False:
                    return False
                return True if (a is True and b is True) else None
            if a is True or b is True:
                return True
            return False if (a is False and b is False) else None
        if k == "match":
            if not is_subj(e["scrut"]):
                return None
            for arm in e["arms"]:
                m = pat_matches(arm["pat"])
                if m is None or "guard" in arm and m:
                    return None
                if m:
                    ap = arm["pat"]
                    while ap.get("k") in ("pref", "pderef"):
                        ap = ap["pat"]
                    if ap.get("k") == "pbind" and "sub" not in ap:
                        subj.add(ap["id"])
                    return ev(arm["body"], d + 1)
            return None
        if k == "if":
            c = ev(e["cond"], d + 1)
            if c is None:
                return None
            if c:
                return ev(e["then"], d + 1)
            return ev(e["else"], d + 1) if "else" in e else "unit"
        if k in ("return", "ireturn"):
            raise Ret((e.get("inl"), ev(e["e"], d + 1) if "e" in e else None))
        if k == "semi":
            return ev(e["e"], d + 1)
        if k == "blockexpr":
            try:
                for s_ in e["b"]["stmts"]:
                    if s_.get("k") == "let":
                        continue
                    v = ev(s_, d + 1)
                    if v is None:
                        return None
                return ev(e["b"]["tail"], d + 1) if "tail" in e["b"] else "unit"
            except Ret as r:
                if "inl_id" in e and r.v[0] == e["inl_id"]:
                    return r.v[1]
                raise
        return None
    try:
        v = ev(body, 0)
    except Ret as r:
        v = r.v[1]
    return v if isinstance(v, bool) else None
