"""Line-writer models: the tokens a formatting-macro site writes, with every placeholder classified by the role of the value
it prints (not by the name of a local), and the sites a function reaches when its subject is a given enum variant."""
import re
from .tree import *  # noqa
from . import fmtstr
from . import norm
from .tables import variant_pat, eval_variant_pred


def site_tokens(site, role):
    """whitespace-separated tokens of the line written by a write!/writeln! site: each token is a list of ('lit', text) | ('arg', role(node))"""
    pc = fmtstr.parse_call(site["snippet"] or "")
    if not pc or pc[2] is None:
        return None
    nodes = fmtstr.arg_nodes(site)
    toks = [[]]
    k = 0
    for kind, v in fmtstr.pieces(pc[2], pc[3]):
        if kind == "lit":
            for p in re.split(r"(\s+)", v):
                if not p:
                    continue
                if p.isspace():
                    if toks[-1]:
                        toks.append([])
                else:
                    toks[-1].append(("lit", p))
        else:
            node = nodes[k] if k < len(nodes) else None
            k += 1
            r = role(node) if node is not None else "?"
            if isinstance(r, tuple) and r[0] == "lit":
                # a placeholder that prints a constant string selected by the subject: literal text
                for p in re.split(r"(\s+)", r[1]):
                    if not p:
                        continue
                    if p.isspace():
                        if toks[-1]:
                            toks.append([])
                    else:
                        toks[-1].append(("lit", p))
            else:
                toks[-1].append(("arg", r))
    if not toks[-1]:
        toks.pop()
    return toks


def flat(toks):
    """['id', "'input'", 'sort+suffix', ..]"""
    return ["+".join(p[1] if p[0] == "arg" else "'%s'" % p[1] for p in t) for t in toks]


class Unknown(Exception):
    pass


def variant_walk(crate, f, pid, variant_path, macros=("write", "writeln"), values=None, slices=None):
    """the formatting sites executed, in order, when the parameter `pid` of f is the given enum variant (its fields unknown), together with
    the bindings of the variant's pattern that are in scope: ([site..], {binding id: field key}).  Raises Unknown when reaching a site depends
    on anything but the variant."""
    sites = {id(s_["node"]): s_ for s_ in fmtstr.macro_sites(crate, f["body"], macros)}
    binds = {}
    out = []
    values = values if values is not None else {}     # binding id -> ("lit", v) | ("elem", slice param id, index): filled for constants selected by the variant
    slices = slices or set()                          # parameter ids of slices whose elements may be enumerated (`&children[..n]`)

    def const_of(e, depth=0):
        """literal / tuple of literals an expression evaluates to when the subject is this variant, else None"""
        e = norm.tail_value(e)
        if depth > 6:
            return None
        if e.get("k") == "lit":
            return ("lit", e.get("v"))
        if e.get("k") == "tuple":
            parts = [const_of(x, depth + 1) for x in e["es"]]
            return ("tuple", parts) if all(p_ is not None for p_ in parts) else None
        if e.get("k") == "local" and e["id"] in values:
            return values[e["id"]]
        if e.get("k") == "local" and e["id"] in LET_INITS and canon(e["id"]) != canon(pid):
            return const_of(LET_INITS[e["id"]], depth + 1)
        if e.get("k") == "match" and is_subject(e["scrut"]):
            for arm in e["arms"]:
                alt, vp = pat_hit(arm["pat"])
                if alt is None:
                    continue
                if "guard" in arm:
                    return None
                return const_of(arm["body"], depth + 1)
        if e.get("k") == "blockexpr" and "tail" in e["b"]:
            return const_of(e["b"]["tail"], depth + 1)
        return None

    def bind_const(pat, v):
        while pat.get("k") in ("pref", "pderef"):
            pat = pat["pat"]
        if pat.get("k") == "pbind" and v is not None:
            values[pat["id"]] = v
        elif pat.get("k") == "ptuple" and v is not None and v[0] == "tuple" and len(v[1]) == len(pat["subs"]):
            for sp_, x in zip(pat["subs"], v[1]):
                bind_const(sp_, x)

    def has_site(e):
        return any(id(x) in sites for x in walk(e))

    subject_ids = {canon(pid)}

    def is_subject(e):
        e = peel(e)
        return e.get("k") == "local" and canon(e["id"]) in subject_ids

    def pat_hit(pat):
        for alt in pat_alts(pat):
            a = alt
            while a.get("k") in ("pref", "pderef"):
                a = a["pat"]
            if a.get("k") == "pwild" or (a.get("k") == "pbind" and "sub" not in a):
                return alt, None
            vp = variant_pat(a)
            if vp is None:
                raise Unknown("pattern")
            if vp[0] == variant_path:
                return alt, vp
        return None, None

    class Ret(Exception):
        pass

    def run(e):
        if id(e) in sites:
            out.append(dict(sites[id(e)], _values=dict(values)))
            return
        k = e.get("k")
        if k in ("blockexpr", "block"):
            b = e["b"] if k == "blockexpr" else e
            for s_ in b["stmts"]:
                run(s_)
            if "tail" in b:
                run(b["tail"])
            return
        if k in ("semi", "try"):
            run(e["e"])
            return
        if k == "let":
            if "init" in e:
                run(e["init"])
                if not e.get("inl_param"):
                    bind_const(e["pat"], const_of(e["init"]))
            return
        if k in ("return",):
            if "e" in e:
                run(e["e"])
            raise Ret()
        if k == "match":
            if is_subject(e["scrut"]):
                for arm in e["arms"]:
                    alt, vp = pat_hit(arm["pat"])
                    if alt is None:
                        continue
                    if "guard" in arm:
                        raise Unknown("guard")
                    a_ = alt
                    while a_.get("k") in ("pref", "pderef"):
                        a_ = a_["pat"]
                    if a_.get("k") == "pbind":
                        subject_ids.add(canon(a_["id"]))       # `other => ..`: another name of the subject
                    if vp:
                        for key, sp in vp[1].items():
                            b_ = sp
                            while b_.get("k") in ("pref", "pderef"):
                                b_ = b_["pat"]
                            if b_.get("k") == "pbind":
                                binds[b_["id"]] = key
                    run(arm["body"])
                    return
                raise Unknown("no arm for the variant")
            if has_site(e):
                raise Unknown("match on other data")
            return
        if k == "if":
            if not has_site(e):
                return
            c = resolve(e["cond"])
            v = eval_variant_pred(c, pid, variant_path)
            if v is None:
                raise Unknown("condition")
            if v:
                run(e["then"])
            elif "else" in e:
                run(e["else"])
            return
        if k == "for" and has_site(e):
            # `for x in &slice[..n]` with n a constant selected by the variant: the body once per element, in order
            it = peel(e["iter"])
            for _ in range(4):
                # `let operands = &children[..n]; for x in operands` / `.iter()`
                if it.get("k") == "mcall" and it["name"] in ("iter", "into_iter", "copied", "cloned") and not it["args"]:
                    it = peel(it["recv"])
                elif it.get("k") == "local" and it["id"] in LET_INITS:
                    it = peel(LET_INITS[it["id"]])
                else:
                    break
            bnds = pat_bindings(e["pat"])
            if it.get("k") == "index" and peel(it["e"]).get("k") == "local" and canon(peel(it["e"])["id"]) in {canon(x) for x in slices} and len(bnds) == 1:
                rng = peel(it["i"])
                fs = {f_["name"]: f_["e"] for f_ in rng.get("fields", [])} if rng.get("k") == "struct" else {}
                lo = const_of(fs["start"]) if "start" in fs else ("lit", 0)
                hi = const_of(fs["end"]) if "end" in fs else None
                if rng.get("k") == "struct" and rng["path"].endswith(("ops::range::RangeTo", "ops::range::Range")) and lo and hi and lo[0] == "lit" and hi[0] == "lit":
                    for i_ in range(lo[1], hi[1]):
                        values[bnds[0][1]] = ("elem", canon(peel(it["e"])["id"]), i_)
                        start = len(out)
                        run(e["body"])
                    return
            raise Unknown("site in a loop")
        if k in ("for", "while", "loop", "closure"):
            if has_site(e):
                raise Unknown("site in a loop / closure")
            return
        if k in ("call", "mcall", "callv"):
            for a in call_args(e) if k != "callv" else e.get("args", []):
                if has_site(a):
                    run(a)
            return
        if has_site(e):
            for v in e.values():
                if isinstance(v, dict) and has_site(v):
                    run(v)
                elif isinstance(v, list):
                    for x in v:
                        if isinstance(x, dict) and has_site(x):
                            run(x)
    try:
        run(f["body"])
    except Ret:
        pass
    return out, binds
