"""Narrowing integer casts and their guards (R01.2 / R04.4)."""
from .tree import *  # noqa

BITS = {"u8": 8, "u16": 16, "u32": 32, "u64": 64, "u128": 128, "usize": 64,
        "i8": 8, "i16": 16, "i32": 32, "i64": 64, "i128": 128, "isize": 64}


def int_bits(t):
    return BITS.get(t)


def max_value_bits(t):
    """number of value bits of non-negative range"""
    b = BITS.get(t)
    if b is None:
        return None
    return b - 1 if t.startswith("i") else b


def narrowing_casts(f):
    out = []
    counts = {}
    for n, parents in walk_parents(f["body"]):
        if n.get("k") != "cast":
            continue
        fr, to = n.get("from"), n.get("ty")
        if fr not in BITS or to not in BITS:
            continue
        if max_value_bits(fr) <= max_value_bits(to) and not (fr.startswith("i") and to.startswith("u")):
            continue
        if fr.startswith("i") and to.startswith("u") and False:
            continue
        desc = "%s->%s" % (fr, to)
        counts[desc] = counts.get(desc, 0) + 1
        out.append({"node": n, "parents": parents, "from": fr, "to": to, "desc": desc, "ordinal": counts[desc]})
    return out


def _source_fits(n, to):
    """source expression provably fits the target: literal, widening cast of a narrower type, bool/char-free"""
    s = peel(n["e"])
    if s.get("k") == "lit" and isinstance(s.get("v"), int):
        return s["v"] < (1 << max_value_bits(to)), "literal"
    if s.get("k") == "cast" and s.get("from") in BITS and max_value_bits(s["from"]) <= max_value_bits(to) and not s["from"].startswith("i"):
        return True, "source is a widening of %s" % s["from"]
    if s.get("k") == "mcall" and s["name"] in ("min",):
        for a in s["args"]:
            a = peel(a)
            if a.get("k") == "cast" and a.get("from") in BITS and max_value_bits(a["from"]) <= max_value_bits(to):
                return True, "min with a widened %s value" % a["from"]
            if a.get("k") == "lit" and isinstance(a.get("v"), int) and a["v"] < (1 << max_value_bits(to)):
                return True, "min with literal"
    if s.get("k") == "binary" and s["op"] in ("%", "&"):
        r = peel(s["r"])
        if r.get("k") == "lit" and isinstance(r.get("v"), int) and r["v"] <= (1 << max_value_bits(to)):
            return True, "masked/modulo by literal"
        if r.get("k") == "cast" and r.get("from") in BITS and max_value_bits(r["from"]) <= max_value_bits(to) and s["op"] == "%":
            return True, "modulo a widened %s value" % r["from"]
    return False, ""


def _mentions(cond, ids):
    for x in walk(cond):
        if x.get("k") == "binary" and x["op"] in ("<", "<=", ">", ">=", "=="):
            for side in (x["l"], x["r"]):
                for y in walk(side):
                    if y.get("k") == "local" and y["id"] in ids:
                        return True
        if x.get("k") == "mcall" and x["name"] in ("cmp", "partial_cmp", "lt", "le", "gt", "ge"):
            for y in walk(x):
                if y.get("k") == "local" and y["id"] in ids:
                    return True
    return False


def guarded(f, inst):
    n = inst["node"]
    ok, why = _source_fits(n, inst["to"])
    if ok:
        return True, why
    # ids of locals the source is made of (only plain locals / field paths are tracked)
    src = peel(n["e"])
    ids = {y["id"] for y in walk(src) if y.get("k") == "local"}
    if not ids:
        return False, "source %s is not a tracked local" % show(src)
    # a source local of the *wide* type must be compared before the cast on the path to it:
    # (a) an enclosing if/match-guard condition mentions it, or
    # (b) an earlier statement of an enclosing block is an `if` mentioning it whose then-branch diverges
    parents = inst["parents"]
    chain = list(parents) + [n]
    for i, p in enumerate(parents):
        nxt = chain[i + 1]
        if p.get("k") == "if" and (contains(p["then"], n) or ("else" in p and contains(p["else"], n))):
            if _mentions(p["cond"], ids):
                return True, "inside a branch of `if %s`" % show(p["cond"])
        if p.get("k") == "match":
            for arm in p["arms"]:
                if contains(arm["body"], n) and "guard" in arm and _mentions(arm["guard"], ids):
                    return True, "inside a match arm guarded by `%s`" % show(arm["guard"])
        if p.get("k") == "blockexpr":
            for st in p["b"]["stmts"]:
                if contains(st, n):
                    break
                s_ = unsemi(st)
                if s_.get("k") == "if" and _mentions(s_["cond"], ids) and s_["then"].get("ty") == "!":
                    return True, "after an early exit on `if %s`" % show(s_["cond"])
                if s_.get("k") == "let" and "els" in s_:
                    pass
    return False, "no dominating comparison of %s" % ", ".join(sorted({y["name"] for y in walk(src) if y.get("k") == "local"}))
