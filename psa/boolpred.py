"""Boolean predicate extraction: closures / conditions built from && || !, comparisons of a named field
with an integer literal, bool fields and let-bound bool locals become formulas over named atoms."""
from .tree import *  # noqa


class Opaque(Exception):
    def __init__(self, node, why=""):
        self.node = node
        self.why = why


def atom_name(n, roots):
    """a.b.c rooted at one of the roots {id: alias} -> 'alias.b.c'"""
    fp = field_path(n)
    if fp is None:
        return None
    name, i, fs = fp
    if i in roots:
        return ".".join([roots[i]] + fs)
    for r_, alias in roots.items():
        if i is not None and r_ is not None and canon(i) == canon(r_):
            return ".".join([alias] + fs)          # the root under another name (parameter of an inlined helper)
    return None


def extract(n, roots, defs=None, local_atoms=None, depth=0, bool_atoms=None, atom_fn=None):
    """returns formula: ('and',a,b) ('or',a,b) ('not',a) ('atom',name) ('const',b). Raises Opaque.
    roots: {local id: alias} whose fields are atoms; local_atoms: {local id: atom name} for integer locals
    compared against 0 (e.g. a step variable); defs: local_defs for following let-bound bool locals."""
    n = peel(n)
    if depth > 20:
        raise Opaque(n, "too deep")
    k = n.get("k")
    rec = lambda x: extract(x, roots, defs, local_atoms, depth + 1, bool_atoms, atom_fn)
    if atom_fn is not None:
        a_ = atom_fn(n)
        if a_ is not None:
            return ("atom", a_)
    ite = lambda c, a, b: ("or", ("and", c, a), ("and", ("not", c), b))
    if k in ("blockexpr", "block"):
        # a block with early returns: `if c { return a; } rest`  ==  if c {a} else {rest}
        blk = n["b"] if k == "blockexpr" else n
        items = list(blk["stmts"]) + ([blk["tail"]] if "tail" in blk else [])

        def seq(i):
            if i >= len(items):
                raise Opaque(n, "block without a value")
            s_ = items[i]
            e = s_["e"] if s_.get("k") == "semi" else s_
            if e.get("k") == "let":
                return seq(i + 1)          # bool lets are followed through defs when used
            if e.get("k") == "if" and i < len(items) - 1:
                t = e["then"]
                if "else" not in e:
                    return ite(rec(e["cond"]), rec(t), seq(i + 1))
                raise Opaque(e, "if/else statement")
            if i == len(items) - 1:
                return rec(e)
            raise Opaque(e, "statement in a predicate body")
        return seq(0)
    if k in ("return", "ireturn") and "e" in n:
        return rec(n["e"])
    if k == "if" and "else" in n:
        return ite(rec(n["cond"]), rec(n["then"]), rec(n["else"]))
    if k == "lit" and isinstance(n.get("v"), bool):
        return ("const", n["v"])
    if k == "unary" and n["op"] == "!":
        return ("not", rec(n["e"]))
    if k == "binary" and (n["op"] in ("&&", "||") or (n["op"] in ("&", "|") and (n.get("ty") or "") == "bool")):
        a = rec(n["l"])
        b = rec(n["r"])
        return ("and" if n["op"] in ("&&", "&") else "or", a, b)
    if k == "binary" and n["op"] in ("==", "!=", "^") and str(peel(n["l"]).get("ty", "")).lstrip("&") == "bool" and str(peel(n["r"]).get("ty", "")).lstrip("&") == "bool":
        # equality / inequality of two booleans: iff / xor
        a = rec(n["l"])
        b = rec(n["r"])
        iff = ("or", ("and", a, b), ("and", ("not", a), ("not", b)))
        return iff if n["op"] == "==" else ("not", iff)
    if k == "binary" and n["op"] in ("==", "!=", ">", ">=", "<", "<="):
        l, r = peel(n["l"]), peel(n["r"])
        op = n["op"]
        if l.get("k") == "lit" and r.get("k") != "lit":
            l, r = r, l
            op = {"<": ">", ">": "<", "<=": ">=", ">=": "<=", "==": "==", "!=": "!="}[op]
        if r.get("k") == "lit" and isinstance(r.get("v"), int) and not isinstance(r.get("v"), bool):
            name = atom_name(l, roots)
            if name is None and l.get("k") == "local" and local_atoms and l["id"] in local_atoms:
                name = local_atoms[l["id"]]
            if name is not None and (l.get("ty") or "").lstrip("&") in ("u8", "u16", "u32", "u64", "usize", "u128"):
                v = r["v"]
                pos = ("atom", name + ">0")
                if (op, v) in ((">", 0), ("!=", 0), (">=", 1)):
                    return pos
                if (op, v) in (("==", 0), ("<", 1), ("<=", 0)):
                    return ("not", pos)
                raise Opaque(n, "comparison with a non-zero threshold")
        raise Opaque(n, "unsupported comparison")
    if k in ("field",):
        name = atom_name(n, roots)
        if name is not None and (n.get("ty") or "") == "bool":
            return ("atom", name)
        raise Opaque(n, "non-bool or foreign field")
    if k == "local" and bool_atoms is not None and n["id"] in bool_atoms:
        return ("atom", bool_atoms[n["id"]])
    if k == "local" and (n.get("ty") or "") == "bool" and defs is not None:
        init = simple_let_init(defs, n["id"])
        if init is not None:
            return rec(init)
        raise Opaque(n, "bool local without a simple definition")
    if k == "mcall" and n["name"] in ("is_used",):
        raise Opaque(n, "method call")
    raise Opaque(n, "unsupported construct %s" % k)


def atoms(f, out=None):
    out = set() if out is None else out
    if f[0] == "atom":
        out.add(f[1])
    elif f[0] in ("and", "or"):
        atoms(f[1], out)
        atoms(f[2], out)
    elif f[0] == "not":
        atoms(f[1], out)
    return out


def ev(f, val):
    t = f[0]
    if t == "const":
        return f[1]
    if t == "atom":
        return val[f[1]]
    if t == "not":
        return not ev(f[1], val)
    if t == "and":
        return ev(f[1], val) and ev(f[2], val)
    if t == "or":
        return ev(f[1], val) or ev(f[2], val)
    raise ValueError(t)


def fshow(f):
    t = f[0]
    if t == "const":
        return "true" if f[1] else "false"
    if t == "atom":
        return f[1]
    if t == "not":
        return "!" + fshow(f[1]) if f[1][0] in ("atom", "const") else "!(%s)" % fshow(f[1])
    return "(%s %s %s)" % (fshow(f[1]), "&&" if t == "and" else "||", fshow(f[2]))
