#!/usr/bin/env python3
"""Regenerates /verif/MANIFEST.json from the rule modules that exist (python3 -m psa.manifest_gen)."""
import importlib
import json
import os
import subprocess

VERIF = os.path.dirname(os.path.dirname(os.path.abspath(__file__)))
ALL = ["C%02d" % i for i in range(1, 21)]
NA = {
    "C10": "PDR soundness/termination depends on the logical content of every solver query and on arbitrary solver answers; no clause of it is visible in the shape of the code. Its structural shell (unknown never treated as unsat, solver errors propagated, witness obtained from BMC only) is decided under C15 and C03.",
    "C19": "Soundness of the e-graph rewrite rules quantifies over widths, signs and operand values of string-encoded patterns; deciding it needs evaluation or a solver, which is outside static analysis. The only structural facts (slot layout agreement) are asserted by the crate itself and are not a necessary-and-sufficient witness of the property.",
}


def main():
    checks = []
    na = []
    for pid in ALL:
        if pid in NA:
            na.append({"property_id": pid, "reason": NA[pid]})
            continue
        try:
            mod = importlib.import_module("psa.rules." + pid.lower())
        except ImportError:
            na.append({"property_id": pid, "reason": "check not built yet (static rules for this property are designed in DESIGN.md section 4 but not implemented at this commit)"})
            continue
        checks.append({
            "property_id": pid,
            "quick_cmd": "./check %s --tier quick" % pid,
            "thorough_cmd": "./check %s --tier thorough" % pid,
            "evidence_file": "evidence/%s.json" % pid,
            "replay_cmd_template": "./check --explain {path}",
            "engine": "psa (rustc_private fact extractor + rule engine)",
            "level_claimed": {
                "category": "other",
                "text": mod.LEVEL_TEXT,
                "design_ref": "DESIGN.md section 4, " + pid,
            },
            "level_note": mod.LEVEL_NOTE,
            "technique": mod.TECHNIQUE,
        })
    commits = []
    try:
        log = subprocess.check_output(["git", "-C", "/repo", "log", "--format=%H %s"], text=True)
        for l in log.splitlines():
            h, s = l.split(" ", 1)
            if s.startswith("hook:"):
                commits.append(h)
    except Exception:
        pass
    man = {
        "version": 1,
        "setup_cmd": "./setup.sh",
        "hooks": {
            "guard": "patronus_verif",
            "enable": "no hooks are needed: every check analyses the unmodified source through a compiler driver (RUSTC_WORKSPACE_WRAPPER); the guard name is reserved and unused",
            "baseline_off_cmd": "./baseline.sh",
            "source_commits": commits,
            "add_only": True,
        },
        "engines": [
            {"name": "psa-extract", "path": "psa-extract/", "serves_properties": [c["property_id"] for c in checks],
             "kind_free_text": "rustc_private compiler driver (nightly) run under cargo check on /repo's working tree; writes the type-checked, name-resolved program (HIR tree view, ADTs, impls) as JSON facts"},
            {"name": "psa", "path": "psa/", "serves_properties": [c["property_id"] for c in checks],
             "kind_free_text": "Python rule engine over the facts: sibling-table agreement, who-may-call / who-may-construct, ordering / pairing / must-pass-through on the structured control flow, finite-domain evaluators; fixture crate with positive controls"},
        ],
        "checks": checks,
        "not_applicable": na,
        "notes": "Static analysis only. Each check decides named structural clauses (necessary conditions) of its property, not the behavioural property as a whole; see DESIGN.md. Exit codes: 0 held, 1 VIOLATION, 3 ENGINE-ERROR (no verdict).",
    }
    with open(os.path.join(VERIF, "MANIFEST.json"), "w") as fh:
        json.dump(man, fh, indent=1)
    print("claimed:", [c["property_id"] for c in checks])
    print("not applicable:", [n["property_id"] for n in na])


if __name__ == "__main__":
    main()
