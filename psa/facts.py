"""Fact building (runs the psa-extract driver over /repo's current working tree) and loading."""
import fcntl
import hashlib
import json
import os
import re
import shutil
import subprocess
import sys
import time

VERIF = os.path.dirname(os.path.dirname(os.path.abspath(__file__)))
REPO = os.environ.get("PSA_REPO", "/repo")
BUILD = os.path.join(VERIF, ".build")
DRIVER = os.path.join(VERIF, "psa-extract", "target", "debug", "psa-extract")

LIB_PKGS = ["patronus", "patronus-dse", "patronus-egraphs"]
LIB_CRATES = ["patronus", "patronus_dse", "patronus_egraphs"]
DEP_CRATES = ["baa"]  # registry dependencies whose facts are needed (locked version from Cargo.lock)


class EngineError(Exception):
    pass


class BuildError(Exception):
    pass


def _sysroot():
    return subprocess.check_output(["rustc", "+nightly", "--print", "sysroot"], text=True).strip()


def tree_hash(repo=REPO):
    """content hash of everything cargo compiles: *.rs, Cargo.toml, Cargo.lock, build scripts, + driver"""
    h = hashlib.sha256()
    files = []
    for root, dirs, fs in os.walk(repo):
        dirs[:] = sorted(d for d in dirs if d not in ("target", ".git", "inputs", "node_modules", ".venv"))
        for f in sorted(fs):
            if f.endswith(".rs") or f in ("Cargo.toml", "Cargo.lock", "rust-toolchain.toml", "rust-toolchain") or f.endswith(".toml"):
                files.append(os.path.join(root, f))
    for p in files:
        h.update(os.path.relpath(p, repo).encode())
        h.update(b"\0")
        with open(p, "rb") as fh:
            h.update(fh.read())
        h.update(b"\0")
    with open(DRIVER, "rb") as fh:
        h.update(hashlib.sha256(fh.read()).digest())
    return h.hexdigest()[:24]


def ensure_driver():
    if not os.path.exists(DRIVER):
        r = subprocess.run(["cargo", "build", "--offline"], cwd=os.path.join(VERIF, "psa-extract"),
                           stdout=subprocess.PIPE, stderr=subprocess.STDOUT, text=True)
        if r.returncode != 0 or not os.path.exists(DRIVER):
            raise EngineError("cannot build psa-extract driver:\n" + r.stdout[-4000:])


def _run_cargo(repo, scope, out_dir, nonce, crates, target_dir):
    env = dict(os.environ)
    env.update({
        "LD_LIBRARY_PATH": _sysroot() + "/lib",
        "RUSTFLAGS": "-Awarnings",
        "RUSTC_WRAPPER": DRIVER,
        "PSA_OUT": out_dir,
        "PSA_CRATES": ",".join(crates),
        "PSA_NONCE": nonce,
        "CARGO_TARGET_DIR": target_dir,
        "CARGO_NET_OFFLINE": "true",
    })
    env.pop("RUSTC_WORKSPACE_WRAPPER", None)
    cmd = ["cargo", "+nightly", "check", "--offline"]
    if scope == "lib":
        for p in LIB_PKGS:
            cmd += ["-p", p]
        cmd += ["--lib"]
    else:
        cmd += ["--workspace", "--all-targets"]
    r = subprocess.run(cmd, cwd=repo, env=env, stdout=subprocess.PIPE, stderr=subprocess.STDOUT, text=True)
    return r


def build_facts(scope="lib", repo=REPO, use_cache=True):
    """returns (facts_dir, info). scope: 'lib' (library targets of the three library crates) or
    'all' (--workspace --all-targets)."""
    ensure_driver()
    os.makedirs(BUILD, exist_ok=True)
    lock = open(os.path.join(BUILD, "lock"), "w")
    fcntl.flock(lock, fcntl.LOCK_EX)
    try:
        th = tree_hash(repo)
        nonce = th + "-" + scope
        fdir = os.path.join(BUILD, "facts", nonce)
        stamp = os.path.join(fdir, "COMPLETE")
        if use_cache and os.path.exists(stamp):
            return fdir, {"tree_hash": th, "scope": scope, "cached": True, "extract_s": 0.0}
        if os.path.exists(fdir):
            shutil.rmtree(fdir)
        # bound the cache: keep at most 6 fact dirs
        froot = os.path.join(BUILD, "facts")
        os.makedirs(froot, exist_ok=True)
        olds = sorted((os.path.getmtime(os.path.join(froot, d)), d) for d in os.listdir(froot))
        now = time.time()
        for mt, d in olds[:-12] if len(olds) > 12 else []:
            if now - mt > 1800:
                shutil.rmtree(os.path.join(froot, d), ignore_errors=True)
        os.makedirs(fdir)
        target = os.path.join(BUILD, "target-" + scope)
        # cargo's freshness cache would skip the wrapper for unchanged crates: drop the workspace
        # members' fingerprints so that the driver always runs
        fp = os.path.join(target, "debug", ".fingerprint")
        if os.path.isdir(fp):
            for d in os.listdir(fp):
                if re.match(r"^(patronus|pypatronus|bmc|sim|simplify|view|egraphs-cond-synth|cond-synth|patron|baa-)", d):
                    shutil.rmtree(os.path.join(fp, d), ignore_errors=True)
        crates = LIB_CRATES + DEP_CRATES
        if scope == "all":
            crates = crates + ["@workspace"]
        t0 = time.time()
        r = _run_cargo(repo, scope, fdir, nonce, crates, target)
        dt = time.time() - t0
        if r.returncode != 0:
            shutil.rmtree(fdir, ignore_errors=True)
            if "psa_extract" in r.stdout or "psa-extract: " in r.stdout or "the compiler unexpectedly panicked" in r.stdout:
                raise EngineError("the fact extractor crashed:\n" + r.stdout[-3000:])
            raise BuildError(r.stdout[-6000:])
        names = os.listdir(fdir)
        for c in LIB_CRATES:
            if not any(n.startswith(c + ".") for n in names):
                shutil.rmtree(fdir, ignore_errors=True)
                raise EngineError("driver did not run for crate %s (facts missing); cargo output:\n%s" % (c, r.stdout[-3000:]))
        open(stamp, "w").write(nonce)
        return fdir, {"tree_hash": th, "scope": scope, "cached": False, "extract_s": round(dt, 2)}
    finally:
        fcntl.flock(lock, fcntl.LOCK_UN)
        lock.close()


_GEN = re.compile(r"::<[^<>]*(?:<[^<>]*(?:<[^<>]*>[^<>]*)*>[^<>]*)*>")


def norm_path(p):
    """strip generic argument segments `::<..>` from def paths"""
    if not p:
        return p
    prev = None
    while prev != p:
        prev = p
        p = _GEN.sub("", p)
    return p


def _resolve_types(node, types):
    stack = [node]
    while stack:
        n = stack.pop()
        if isinstance(n, dict):
            for key in ("ty", "aty", "from", "self_ty", "impl_self", "output"):
                v = n.get(key)
                if isinstance(v, int) and not isinstance(v, bool):
                    n[key] = types[v]
            if "inputs" in n and isinstance(n["inputs"], list):
                n["inputs"] = [types[i] if isinstance(i, int) else i for i in n["inputs"]]
            for key in ("path", "res", "ovl", "next_fn", "into_iter_fn"):
                v = n.get(key)
                if isinstance(v, str):
                    n[key] = norm_path(v)
            for k, v in n.items():
                if isinstance(v, (dict, list)):
                    stack.append(v)
        elif isinstance(n, list):
            for v in n:
                if isinstance(v, (dict, list)):
                    stack.append(v)


class PreparedFns(dict):
    """path -> [functions]; a function of a library crate of the repository is normalised on first access
    (psa.norm.prepare: parameters renamed to the known names, new helper functions inlined, let aliases registered)"""

    def __init__(self, raw, crate):
        dict.__init__(self, raw)
        self._crate = crate
        self._done = set()

    def _prep(self, k):
        if k not in self._done and dict.__contains__(self, k):
            self._done.add(k)
            from . import norm
            dict.__setitem__(self, k, [norm.prepare(f, self._crate) for f in dict.__getitem__(self, k)])

    def __getitem__(self, k):
        self._prep(k)
        return dict.__getitem__(self, k)

    def get(self, k, d=None):
        self._prep(k)
        return dict.get(self, k, d)

    def _inlined_everywhere(self, k):
        """a new helper function (not among the known functions) that has callers: it is analysed inside its callers"""
        from . import norm
        if k in norm.known_fns():
            return False
        if not hasattr(self, "_called"):
            self._called = set(norm.callers_of(self._crate).keys())
        fl = dict.__getitem__(self, k)
        return k in self._called and len(fl) == 1 and fl[0].get("kind") in ("Fn", "AssocFn")

    def items(self):
        for k in list(dict.keys(self)):
            if not self._inlined_everywhere(k):
                yield k, self[k]

    def values(self):
        for k in list(dict.keys(self)):
            if not self._inlined_everywhere(k):
                yield self[k]


class Crate:
    def __init__(self, doc, fname):
        self.doc = doc
        self.fname = fname
        self.name = doc["crate"]
        self.is_test = doc.get("is_test", False)
        self.fns = {}
        for f in doc["fns"]:
            # several fns may share a path (e.g. closures are inlined; cfg'd duplicates): keep list
            self.fns.setdefault(f["path"], []).append(f)
        self.raw_fns = self.fns
        from . import tree as _tree
        for p_, fl in self.fns.items():
            if fl[0].get("kind") in ("Const", "AssocConst") and not self.is_test:
                _tree.CONSTS[p_] = fl[0]["body"]
        if not self.is_test and self.name in ("patronus", "patronus_dse", "patronus_egraphs"):
            self.fns = PreparedFns(self.raw_fns, self)
        self.adts = {a["path"]: a for a in doc["adts"]}
        self.impls = doc["impls"]
        self.statics = doc["statics"]
        self.macros = doc["macros"]


class Facts:
    def __init__(self, fdir, info):
        self.dir = fdir
        self.info = info
        self.crates = []
        want = open(os.path.join(fdir, "COMPLETE")).read().strip()
        for n in sorted(os.listdir(fdir)):
            if not n.endswith(".json"):
                continue
            doc = json.load(open(os.path.join(fdir, n)))
            if doc.get("nonce") != want:
                raise EngineError("fact file %s has nonce %r, expected %r" % (n, doc.get("nonce"), want))
            types = doc["types"]
            _resolve_types(doc["fns"], types)
            _resolve_types(doc["adts"], types)
            _resolve_types(doc["impls"], types)
            _resolve_types(doc["statics"], types)
            self.crates.append(Crate(doc, n))

    def lib(self, name):
        """the non-test library crate of that name"""
        for c in self.crates:
            if c.name == name and not c.is_test and ".lib." in c.fname or (c.name == name and not c.is_test and "rlib" in c.fname):
                return c
        for c in self.crates:
            if c.name == name and not c.is_test:
                return c
        raise EngineError("no facts for crate " + name)

    def has_crate(self, name):
        return any(c.name == name for c in self.crates)

    def all_fns(self, include_tests=True):
        """every function of every analysed crate once: for test builds of a crate that is also present as a
        normal build only the additional (test-only) functions are yielded"""
        normal = {}
        for c in self.crates:
            if not c.is_test:
                normal.setdefault(c.name, set()).update(c.fns.keys())
        for c in self.crates:
            if c.is_test and not include_tests:
                continue
            for p, fl in c.raw_fns.items():
                if c.is_test and p in normal.get(c.name, ()):
                    continue
                for f in fl:
                    yield c, f


def load(scope="lib", repo=REPO):
    # a concurrent run may prune the fact cache between building and loading: retry with a fresh build
    last = None
    for _ in range(3):
        fdir, info = build_facts(scope, repo)
        try:
            return Facts(fdir, info)
        except (FileNotFoundError, json.JSONDecodeError) as e:
            last = e
            shutil.rmtree(fdir, ignore_errors=True)
    raise EngineError("fact files disappeared while loading (%s)" % last)


def load_fixtures():
    """facts of the fixture crate (/verif/fixtures): positive / negative controls for the detectors"""
    ensure_driver()
    os.makedirs(BUILD, exist_ok=True)
    fx_dir = os.path.join(VERIF, "fixtures")
    h = hashlib.sha256()
    for root, dirs, fs in os.walk(fx_dir):
        dirs[:] = sorted(d for d in dirs if d != "target")
        for f in sorted(fs):
            if f.endswith(".rs") or f.endswith(".toml"):
                with open(os.path.join(root, f), "rb") as fh:
                    h.update(fh.read())
    with open(DRIVER, "rb") as fh:
        h.update(hashlib.sha256(fh.read()).digest())
    nonce = "fixtures-" + h.hexdigest()[:20]
    fdir = os.path.join(BUILD, "facts-fixtures", nonce)
    stamp = os.path.join(fdir, "COMPLETE")
    lock = open(os.path.join(BUILD, "lock-fixtures"), "w")
    fcntl.flock(lock, fcntl.LOCK_EX)
    try:
        if not os.path.exists(stamp):
            shutil.rmtree(os.path.join(BUILD, "facts-fixtures"), ignore_errors=True)
            os.makedirs(fdir)
            target = os.path.join(BUILD, "target-fixtures")
            shutil.rmtree(os.path.join(target, "debug", ".fingerprint"), ignore_errors=True)
            env = dict(os.environ)
            env.update({"LD_LIBRARY_PATH": _sysroot() + "/lib", "RUSTFLAGS": "-Awarnings", "RUSTC_WRAPPER": DRIVER, "PSA_OUT": fdir,
                        "PSA_CRATES": "psa_fixtures", "PSA_NONCE": nonce, "CARGO_TARGET_DIR": target, "CARGO_NET_OFFLINE": "true"})
            env.pop("RUSTC_WORKSPACE_WRAPPER", None)
            r = subprocess.run(["cargo", "+nightly", "check", "--offline"], cwd=fx_dir, env=env, stdout=subprocess.PIPE, stderr=subprocess.STDOUT, text=True)
            if r.returncode != 0 or not any(n.startswith("psa_fixtures.") for n in os.listdir(fdir)):
                shutil.rmtree(fdir, ignore_errors=True)
                raise EngineError("cannot extract facts of the fixture crate:\n" + r.stdout[-2000:])
            open(stamp, "w").write(nonce)
    finally:
        fcntl.flock(lock, fcntl.LOCK_UN)
        lock.close()
    return Facts(fdir, {"scope": "fixtures", "cached": True})
