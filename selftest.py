#!/usr/bin/env python3
"""Sensitivity self-test: applies each hand-written mutant (psa/mutants/*.json: property, file, old, new, expect)
or seeded patch (seeded/<id>/patch.diff) to a scratch copy of /repo (outside /repo and /verif), runs the property's
check against the copy and reports detected / missed.  Measures the checker, never the property.
usage: ./selftest.py [--only C02] [--seeded] [--name substr]"""
import glob
import json
import os
import shutil
import subprocess
import sys
import tempfile

VERIF = os.path.dirname(os.path.abspath(__file__))


def scratch_copy():
    d = tempfile.mkdtemp(prefix="psa-mut-")
    subprocess.check_call(["rsync", "-a", "--exclude", "target", "--exclude", ".git", "--exclude", "inputs", "/repo/", d + "/repo/"])
    return d


def run_check(pid, repo, tier="quick"):
    env = dict(os.environ)
    env["PSA_REPO"] = repo
    env["PSA_EVIDENCE_DIR"] = os.path.join(os.path.dirname(repo), "evidence")
    r = subprocess.run([os.path.join(VERIF, "check"), pid, "--tier", tier], cwd=VERIF, env=env, stdout=subprocess.PIPE, stderr=subprocess.STDOUT, text=True)
    return r.returncode, r.stdout


def load_items(include_seeded=True):
    items = []
    for p in sorted(glob.glob(os.path.join(VERIF, "psa", "mutants", "*.json"))):
        for m in json.load(open(p)):
            items.append(("hand", m))
    if include_seeded:
        for d in sorted(glob.glob(os.path.join(VERIF, "seeded", "*"))):
            meta = os.path.join(d, "meta.json")
            if os.path.exists(meta):
                m = json.load(open(meta))
                m["patch"] = os.path.join(d, "patch.diff")
                m["name"] = os.path.basename(d)
                items.append(("seeded", m))
    return items


def apply_item(m, repo):
    """returns None on success, else a reason for skipping"""
    if "patch" in m:
        r = subprocess.run(["git", "apply", "--unsafe-paths", "--directory=" + repo, m["patch"]], cwd="/", stdout=subprocess.PIPE, stderr=subprocess.STDOUT, text=True)
        if r.returncode != 0:
            r = subprocess.run(["patch", "-p1", "-d", repo, "-i", m["patch"]], stdout=subprocess.PIPE, stderr=subprocess.STDOUT, text=True)
        return None if r.returncode == 0 else "patch does not apply"
    fp = os.path.join(repo, m["file"])
    s = open(fp).read()
    if s.count(m["old"]) < 1:
        return "anchor text not found"
    s = s.replace(m["old"], m["new"], m.get("count", 1))
    for e2 in m.get("edits", []):
        if e2["old"] not in s:
            return "anchor text not found"
        s = s.replace(e2["old"], e2["new"], 1)
    open(fp, "w").write(s)
    return None


def replay(pid):
    """sensitivity replay for one property: every hand mutant and seeded change of that property against the quick check"""
    out = []
    for kind, m in load_items():
        if m["property"] != pid:
            continue
        d = scratch_copy()
        try:
            repo = d + "/repo"
            why = apply_item(m, repo)
            if why:
                out.append({"name": m["name"], "kind": kind, "outcome": "skipped (%s)" % why})
                continue
            rc, o = run_check(pid, repo)
            keys = [l.strip().split(" at=")[0].split(" key=")[-1] for l in o.splitlines() if l.strip().startswith("rule=")]
            if rc == 1 and keys and "cargo check of /repo failed" not in o:
                outcome = "FALSE-ALARM" if m.get("benign") else "detected"
            elif rc == 0:
                outcome = "silent (as it must be)" if m.get("benign") else "missed"
            else:
                outcome = "error"
            out.append({"name": m["name"], "kind": kind, "outcome": outcome, "reported_by": keys[:3]})
        finally:
            shutil.rmtree(d, ignore_errors=True)
    return out


def main():
    args = sys.argv[1:]
    only = args[args.index("--only") + 1] if "--only" in args else None
    name_f = args[args.index("--name") + 1] if "--name" in args else None
    results = []
    items = []
    for p in sorted(glob.glob(os.path.join(VERIF, "psa", "mutants", "*.json"))):
        for m in json.load(open(p)):
            items.append(("hand", m))
    if "--seeded" in args or "--all" in args:
        for d in sorted(glob.glob(os.path.join(VERIF, "seeded", "*"))):
            meta = os.path.join(d, "meta.json")
            if os.path.exists(meta):
                m = json.load(open(meta))
                m["patch"] = os.path.join(d, "patch.diff")
                m["name"] = os.path.basename(d)
                items.append(("seeded", m))
    if "--patch" in args:
        items = [("adhoc", {"name": os.path.basename(os.path.dirname(args[args.index("--patch") + 1])) or "patch", "property": args[args.index("--prop") + 1], "patch": args[args.index("--patch") + 1]})]
        only = None
    for kind, m in items:
        if only and m["property"] != only:
            continue
        if name_f and name_f not in m["name"]:
            continue
        d = scratch_copy()
        try:
            repo = d + "/repo"
            if "patch" in m:
                r = subprocess.run(["git", "apply", "--unsafe-paths", "--directory=" + repo, m["patch"]], cwd="/", stdout=subprocess.PIPE, stderr=subprocess.STDOUT, text=True)
                if r.returncode != 0:
                    r = subprocess.run(["patch", "-p1", "-d", repo, "-i", m["patch"]], stdout=subprocess.PIPE, stderr=subprocess.STDOUT, text=True)
                if r.returncode != 0:
                    results.append((m["name"], m["property"], "skipped (patch does not apply)", ""))
                    continue
            else:
                fp = os.path.join(repo, m["file"])
                s = open(fp).read()
                if s.count(m["old"]) < 1:
                    results.append((m["name"], m["property"], "skipped (anchor text not found)", ""))
                    continue
                s = s.replace(m["old"], m["new"], m.get("count", 1))
                for e2 in m.get("edits", []):
                    assert e2["old"] in s, "edit anchor missing in " + m["name"]
                    s = s.replace(e2["old"], e2["new"], 1)
                open(fp, "w").write(s)
            checks = m.get("checks") or [m["property"]]
            outcome = "missed"
            info = ""
            for pid in checks:
                rc, out = run_check(pid, repo)
                keys = [l.strip() for l in out.splitlines() if l.strip().startswith("rule=")]
                if rc == 1 and "rule=BUILD" not in out and "cargo check of /repo failed" not in out and keys:
                    exp = m.get("expect")
                    if exp and not any(exp in k for k in keys):
                        outcome = "detected (other rule)"
                    else:
                        outcome = "detected"
                    info = "%s: %s" % (pid, "; ".join(k[:140] for k in keys[:3]))
                    break
                if rc == 3 or (rc == 1 and not keys):
                    outcome = "error"
                    info = out[-600:]
                    break
            if m.get("benign"):
                outcome = {"missed": "silent-ok", "detected": "FALSE-ALARM", "detected (other rule)": "FALSE-ALARM"}.get(outcome, outcome)
            results.append((m["name"], m["property"], outcome, info))
        finally:
            shutil.rmtree(d, ignore_errors=True)
    w = max([len(r[0]) for r in results] + [4])
    for r in results:
        print("%-*s %s %-10s %s" % (w, r[0], r[1], r[2], r[3]))
    missed = [r for r in results if r[2] in ("missed", "error", "FALSE-ALARM")]
    print("%d mutants, %d detected, %d missed/error, %d skipped" % (len(results), len([r for r in results if r[2].startswith("detected")]), len(missed), len([r for r in results if r[2].startswith("skipped")])))
    return 1 if missed else 0


if __name__ == "__main__":
    sys.exit(main())
