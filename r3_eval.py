#!/usr/bin/env python3
"""developer helper: ./r3_eval.py <dir with */<PROP>-m<i>/patch.diff> - run the property's check on a scratch copy with each patch"""
import glob, os, re, shutil, subprocess, sys
from concurrent.futures import ThreadPoolExecutor
sys.path.insert(0, os.path.dirname(os.path.abspath(__file__)))
import selftest
root = os.path.abspath(sys.argv[1])
only = sys.argv[2:] 
patches = sorted(glob.glob(root + "/*/C*-m*/patch.diff"))
def one(p):
    d = os.path.basename(os.path.dirname(p)); pid = d.split("-")[0]
    tag = os.path.basename(os.path.dirname(os.path.dirname(p))) + "/" + d
    if only and not any(o in tag for o in only):
        return None
    sc = selftest.scratch_copy()
    try:
        repo = sc + "/repo"
        r = subprocess.run(["git", "apply", "--unsafe-paths", "--directory=" + repo, p], cwd="/", stdout=subprocess.PIPE, stderr=subprocess.STDOUT, text=True)
        if r.returncode != 0:
            r = subprocess.run(["patch", "-p1", "-d", repo, "-i", p], stdout=subprocess.PIPE, stderr=subprocess.STDOUT, text=True)
        if r.returncode != 0:
            return "%-22s DOES NOT APPLY" % tag
        rc, out = selftest.run_check(pid, repo)
        keys = re.findall(r"key=(\S+)", out)
        return "%-22s %s %s" % (tag, "DETECTED" if rc == 1 else ("MISSED" if rc == 0 else "ERROR rc=%d" % rc), ", ".join(keys[:4]) if keys else out.strip().splitlines()[-1][:200])
    finally:
        shutil.rmtree(sc, ignore_errors=True)
with ThreadPoolExecutor(int(os.environ.get("JOBS", "4"))) as ex:
    for r in ex.map(one, patches):
        if r:
            print(r, flush=True)
