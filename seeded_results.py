#!/usr/bin/env python3
"""Runs every confirmed seeded change (seeded/<id>/patch.diff) against its property's check on a scratch copy of /repo
and records in seeded/<id>/meta.json which rule instances caught it (or that it was missed)."""
import glob, json, os, shutil, subprocess, sys
sys.path.insert(0, os.path.dirname(os.path.abspath(__file__)))
import selftest

VERIF = os.path.dirname(os.path.abspath(__file__))
rows = []
for d in sorted(glob.glob(os.path.join(VERIF, "seeded", "*"))):
    mp = os.path.join(d, "meta.json")
    if not os.path.exists(mp):
        continue
    meta = json.load(open(mp))
    sc = selftest.scratch_copy()
    try:
        repo = sc + "/repo"
        r = subprocess.run(["git", "apply", "--unsafe-paths", "--directory=" + repo, os.path.join(d, "patch.diff")], cwd="/", stdout=subprocess.PIPE, stderr=subprocess.STDOUT, text=True)
        if r.returncode != 0:
            meta["detected_by"] = {"status": "patch no longer applies to the current tree", "keys": []}
        else:
            rc, out = selftest.run_check(meta["property"], repo)
            keys = [l.strip().split(" at=")[0].replace("rule=", "").split(" key=")[1] for l in out.splitlines() if l.strip().startswith("rule=")]
            meta["detected_by"] = {"status": "detected" if rc == 1 and keys else ("missed" if rc == 0 else "engine-error"), "check": meta["property"], "keys": keys[:6]}
        json.dump(meta, open(mp, "w"), indent=1)
        rows.append((meta["name"], meta["detected_by"]["status"], "; ".join(meta["detected_by"]["keys"][:2])))
    finally:
        shutil.rmtree(sc, ignore_errors=True)
for r in rows:
    print("%-8s %-10s %s" % r)
print("%d seeded changes, %d detected" % (len(rows), len([r for r in rows if r[1] == "detected"])))
