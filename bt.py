#!/usr/bin/env python3
"""developer helper: ./bt.py <diff> <PID> [<PID>..] - apply a diff to a scratch copy and show the full reports of the given checks"""
import os, shutil, subprocess, sys
sys.path.insert(0, os.path.dirname(os.path.abspath(__file__)))
import selftest
diff = os.path.abspath(sys.argv[1])
sc = selftest.scratch_copy()
try:
    repo = sc + "/repo"
    r = subprocess.run(["git", "apply", "--unsafe-paths", "--directory=" + repo, diff], cwd="/", stdout=subprocess.PIPE, stderr=subprocess.STDOUT, text=True)
    if r.returncode != 0:
        r = subprocess.run(["patch", "-p1", "-d", repo, "-i", diff], stdout=subprocess.PIPE, stderr=subprocess.STDOUT, text=True)
    if r.returncode != 0:
        print("does not apply:", r.stdout[-500:]); sys.exit(2)
    for pid in sys.argv[2:]:
        rc, out = selftest.run_check(pid, repo)
        lines = [l for l in out.splitlines() if not l.startswith("VIOLATION")]
        print("\n".join(l[:400] for l in lines[-40:]))
finally:
    shutil.rmtree(sc, ignore_errors=True)
