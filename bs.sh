#!/bin/bash
# developer helper: ./bs.sh <diff>  -> persistent scratch copy at /tmp/bs/repo with the diff applied (facts via PSA_REPO=/tmp/bs/repo)
rm -rf /tmp/bs; mkdir -p /tmp/bs
rsync -a --exclude target --exclude .git /repo/ /tmp/bs/repo/
cd /tmp/bs/repo && (git apply --unsafe-paths "$1" 2>/dev/null || patch -p1 -s -i "$1")
