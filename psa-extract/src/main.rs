// psa-extract: rustc_private driver that writes a JSON fact file (re-sugared HIR tree view with
// resolved callees and types) for the crates named in PSA_CRATES; transparent rustc otherwise.
// Used as RUSTC_WORKSPACE_WRAPPER / RUSTC_WRAPPER: argv[1] is the path of the real rustc.
#![feature(rustc_private)]
#![allow(clippy::all)]

extern crate rustc_ast;
extern crate rustc_driver;
extern crate rustc_hir;
extern crate rustc_interface;
extern crate rustc_middle;
extern crate rustc_session;
extern crate rustc_span;

mod json;
use json::J;

use rustc_driver::{Callbacks, Compilation};
use rustc_hir as hir;
use rustc_hir::def::{CtorOf, DefKind, Res};
use rustc_hir::def_id::{DefId, LocalDefId, LOCAL_CRATE};
use rustc_interface::interface::Compiler;
use rustc_middle::ty::print::{with_crate_prefix, with_no_trimmed_paths, with_no_visible_paths, PrintTraitRefExt};
use rustc_middle::ty::{self, Ty, TyCtxt, TypeckResults};
use rustc_span::Span;
use std::collections::HashMap;

struct Cb {
    out_dir: String,
    nonce: String,
    crates: Vec<String>,
    is_workspace_member: bool,
}

impl Callbacks for Cb {
    fn after_analysis<'tcx>(&mut self, _c: &Compiler, tcx: TyCtxt<'tcx>) -> Compilation {
        let name = tcx.crate_name(LOCAL_CRATE).to_string();
        let mut wanted = self.crates.iter().any(|c| c == &name);
        if !wanted && self.crates.iter().any(|c| c == "@workspace") && self.is_workspace_member && name != "build_script_build" {
            wanted = true;
        }
        if !wanted {
            return Compilation::Continue;
        }
        // skip build scripts & proc-macros
        let mut ex = Extractor::new(tcx, name.clone());
        let doc = ex.run(&self.nonce);
        let mut s = String::with_capacity(1 << 22);
        doc.write(&mut s);
        // one write per process; file name contains crate name + crate types + pid to keep
        // lib / bin / test targets of the same name apart
        let kind = if tcx.sess.opts.test { "test" } else { "norm" };
        let ctype = format!("{:?}", tcx.crate_types().first()).to_lowercase();
        let ctype: String = ctype.chars().filter(|c| c.is_ascii_alphanumeric()).collect();
        let path = format!(
            "{}/{}.{}.{}.{}.json",
            self.out_dir,
            name,
            ctype,
            kind,
            std::process::id()
        );
        std::fs::write(&path, s).expect("psa-extract: cannot write fact file");
        Compilation::Continue
    }
}

fn main() {
    let mut args: Vec<String> = std::env::args().collect();
    // wrapper mode: argv[1] is the rustc binary
    if args.len() > 1 && (args[1].ends_with("rustc") || args[1].contains("/rustc")) {
        args.remove(1);
    }
    args[0] = "rustc".to_string();
    let out_dir = std::env::var("PSA_OUT").unwrap_or_default();
    let crates: Vec<String> = std::env::var("PSA_CRATES")
        .unwrap_or_default()
        .split(',')
        .filter(|s| !s.is_empty())
        .map(|s| s.to_string())
        .collect();
    let nonce = std::env::var("PSA_NONCE").unwrap_or_default();
    let is_probe = args.iter().any(|a| a == "-vV" || a.starts_with("--print"))
        || !args.iter().any(|a| a.ends_with(".rs"));
    if out_dir.is_empty() || crates.is_empty() || is_probe {
        struct Nop;
        impl Callbacks for Nop {}
        rustc_driver::run_compiler(&args, &mut Nop);
        return;
    }
    // cargo passes workspace members' root files as paths relative to the workspace root
    let is_workspace_member = args.iter().any(|a| a.ends_with(".rs") && !a.starts_with('/'));
    let mut cb = Cb { out_dir, nonce, crates, is_workspace_member };
    rustc_driver::run_compiler(&args, &mut cb);
}

struct Extractor<'tcx> {
    tcx: TyCtxt<'tcx>,
    krate: String,
    types: Vec<String>,
    type_ix: HashMap<String, usize>,
    macros: Vec<(String, J)>,
    macro_seen: HashMap<String, ()>,
}

fn obj(v: Vec<(&'static str, J)>) -> J {
    J::Obj(v)
}
fn s<T: Into<String>>(x: T) -> J {
    J::Str(x.into())
}

impl<'tcx> Extractor<'tcx> {
    fn new(tcx: TyCtxt<'tcx>, krate: String) -> Self {
        Extractor { tcx, krate, types: vec![], type_ix: HashMap::new(), macros: vec![], macro_seen: HashMap::new() }
    }

    fn ty_ix(&mut self, t: Ty<'tcx>) -> J {
        let st = with_no_visible_paths!(with_no_trimmed_paths!(with_crate_prefix!(t.to_string())));
        let st = self.fix_crate(st);
        self.str_ix(st)
    }
    fn str_ix(&mut self, st: String) -> J {
        if let Some(i) = self.type_ix.get(&st) {
            return J::Num(*i as i64);
        }
        let i = self.types.len();
        self.types.push(st.clone());
        self.type_ix.insert(st, i);
        J::Num(i as i64)
    }

    fn path(&self, d: DefId) -> String {
        let tcx = self.tcx;
        // items of trait impls: always print as <SelfTy as Trait>::name (def_path_str falls back to the
        // module path for impls on foreign/primitive self types, which is ambiguous)
        if matches!(tcx.def_kind(d), DefKind::AssocFn | DefKind::AssocConst { .. } | DefKind::AssocTy) {
            if let Some(par) = tcx.opt_parent(d) {
                if matches!(tcx.def_kind(par), DefKind::Impl { .. }) {
                    if let (Some(tr), Some(name)) = (tcx.impl_opt_trait_ref(par), tcx.opt_item_name(d)) {
                        let tr = tr.instantiate_identity().skip_norm_wip();
                        let st = tcx.type_of(par).instantiate_identity().skip_norm_wip();
                        let p = with_no_visible_paths!(with_no_trimmed_paths!(with_crate_prefix!(format!(
                            "<{} as {}>::{}",
                            st,
                            tr.print_only_trait_path(),
                            name
                        ))));
                        return self.fix_crate(p);
                    }
                }
            }
        }
        let p = with_no_visible_paths!(with_no_trimmed_paths!(with_crate_prefix!(tcx.def_path_str(d))));
        self.fix_crate(p)
    }

    // `crate::` (printed for local items under with_crate_prefix) -> `<crate name>::`
    fn fix_crate(&self, p: String) -> String {
        if !p.contains("crate::") {
            return p;
        }
        let mut out = String::with_capacity(p.len() + 16);
        let b = p.as_bytes();
        let mut i = 0;
        while i < b.len() {
            if p[i..].starts_with("crate::") && (i == 0 || !(b[i - 1].is_ascii_alphanumeric() || b[i - 1] == b'_')) {
                out.push_str(&self.krate);
                out.push_str("::");
                i += 7;
            } else {
                let c = p[i..].chars().next().unwrap();
                out.push(c);
                i += c.len_utf8();
            }
        }
        out
    }

    fn span(&self, sp: Span) -> String {
        let sm = self.tcx.sess.source_map();
        // report the outermost call site for expanded code
        let sp = sp.source_callsite();
        let lo = sm.lookup_char_pos(sp.lo());
        let f = match &lo.file.name {
            rustc_span::FileName::Real(r) => {
                r.local_path().map(|p| p.display().to_string()).unwrap_or_else(|| format!("{:?}", r))
            }
            o => format!("{:?}", o),
        };
        format!("{}:{}:{}", f, lo.line, lo.col.0 + 1)
    }

    // macro backtrace: names from innermost to outermost; registers the outermost call site snippet
    fn mac(&mut self, sp: Span) -> Option<J> {
        if !sp.from_expansion() {
            return None;
        }
        let mut names = vec![];
        let mut cur = sp;
        let mut outer_call = sp;
        let mut desugar = None;
        while cur.from_expansion() {
            let ed = cur.ctxt().outer_expn_data();
            match ed.kind {
                rustc_span::ExpnKind::Macro(_, name) => names.push(name.to_string()),
                rustc_span::ExpnKind::Desugaring(d) => desugar = Some(format!("{:?}", d)),
                _ => {}
            }
            outer_call = ed.call_site;
            cur = ed.call_site;
        }
        if names.is_empty() {
            return desugar.map(|d| obj(vec![("desugar", s(d))]));
        }
        let key = self.span(outer_call);
        if !self.macro_seen.contains_key(&key) {
            self.macro_seen.insert(key.clone(), ());
            let snip = self.tcx.sess.source_map().span_to_snippet(outer_call).unwrap_or_default();
            self.macros.push((key.clone(), s(snip)));
        }
        Some(obj(vec![
            ("names", J::Arr(names.into_iter().map(s).collect())),
            ("site", s(key)),
        ]))
    }

    fn run(&mut self, nonce: &str) -> J {
        let tcx = self.tcx;
        let mut fns = vec![];
        let owners: Vec<LocalDefId> = tcx.hir_body_owners().collect();
        for def in owners {
            let kind = tcx.def_kind(def);
            match kind {
                DefKind::Fn | DefKind::AssocFn | DefKind::Const { .. } | DefKind::AssocConst { .. } | DefKind::Static { .. } => {}
                _ => continue, // closures are inlined into their parents; anon consts skipped
            }
            fns.push(self.owner(def, kind));
        }
        // ADTs and impls
        let mut adts = vec![];
        let mut impls = vec![];
        let mut statics = vec![];
        for id in tcx.hir_free_items() {
            let did = id.owner_id.def_id;
            match tcx.def_kind(did) {
                DefKind::Struct | DefKind::Enum | DefKind::Union => {
                    adts.push(self.adt(did.to_def_id()));
                }
                DefKind::Impl { .. } => {
                    impls.push(self.impl_(did));
                }
                DefKind::Static { .. } => {
                    let ty = tcx.type_of(did).instantiate_identity().skip_norm_wip();
                    let t = self.ty_ix(ty);
                    statics.push(obj(vec![
                        ("path", s(self.path(did.to_def_id()))),
                        ("ty", t),
                        ("mutable", J::Bool(tcx.is_mutable_static(did.to_def_id()))),
                        ("span", s(self.span(tcx.def_span(did)))),
                    ]));
                }
                _ => {}
            }
        }
        let macros = std::mem::take(&mut self.macros);
        obj(vec![
            ("crate", s(self.krate.clone())),
            ("nonce", s(nonce)),
            ("is_test", J::Bool(tcx.sess.opts.test)),
            ("adts", J::Arr(adts)),
            ("impls", J::Arr(impls)),
            ("statics", J::Arr(statics)),
            ("fns", J::Arr(fns)),
            ("macros", J::Map(macros)),
            ("types", J::Arr(self.types.iter().map(|t| s(t.clone())).collect())),
        ])
    }

    fn adt(&mut self, did: DefId) -> J {
        let tcx = self.tcx;
        let adt = tcx.adt_def(did);
        let mut variants = vec![];
        for v in adt.variants() {
            let mut fields = vec![];
            for f in &v.fields {
                let fty = tcx.type_of(f.did).instantiate_identity().skip_norm_wip();
                let t = self.ty_ix(fty);
                fields.push(obj(vec![
                    ("name", s(f.name.to_string())),
                    ("ty", t),
                    ("vis", s(self.vis(f.vis))),
                ]));
            }
            variants.push(obj(vec![
                ("name", s(v.name.to_string())),
                ("path", s(self.path(v.def_id))),
                ("ctor", match v.ctor_kind() { Some(k) => s(format!("{:?}", k)), None => J::Null }),
                ("fields", J::Arr(fields)),
            ]));
        }
        obj(vec![
            ("path", s(self.path(did))),
            ("kind", s(if adt.is_enum() { "enum" } else if adt.is_struct() { "struct" } else { "union" })),
            ("vis", s(self.vis(tcx.visibility(did)))),
            ("variants", J::Arr(variants)),
            ("span", s(self.span(tcx.def_span(did)))),
        ])
    }

    fn vis(&self, v: ty::Visibility<DefId>) -> String {
        match v {
            ty::Visibility::Public => "pub".to_string(),
            ty::Visibility::Restricted(d) => {
                if d.is_crate_root() { "crate".to_string() } else { format!("in {}", self.path(d)) }
            }
        }
    }

    fn impl_(&mut self, did: LocalDefId) -> J {
        let tcx = self.tcx;
        let self_ty = tcx.type_of(did).instantiate_identity().skip_norm_wip();
        let st = self.ty_ix(self_ty);
        let tr = tcx.impl_opt_trait_ref(did).map(|t| {
            let t = t.instantiate_identity().skip_norm_wip();
            let p = with_no_visible_paths!(with_no_trimmed_paths!(with_crate_prefix!(t.print_only_trait_path().to_string())));
            self.fix_crate(p)
        });
        let derived = tcx.is_automatically_derived(did.to_def_id());
        let items: Vec<J> = tcx
            .associated_item_def_ids(did)
            .iter()
            .map(|d| s(self.path(*d)))
            .collect();
        obj(vec![
            ("self_ty", st),
            ("trait", match tr { Some(t) => s(t), None => J::Null }),
            ("derived", J::Bool(derived)),
            ("items", J::Arr(items)),
            ("span", s(self.span(tcx.def_span(did)))),
        ])
    }

    fn owner(&mut self, def: LocalDefId, kind: DefKind) -> J {
        let tcx = self.tcx;
        let body = tcx.hir_body_owned_by(def);
        let tr = tcx.typeck(def);
        let mut cx = BodyCx { ex: self, tr, owner: def };
        let params: Vec<J> = body.params.iter().map(|p| cx.pat(p.pat)).collect();
        let value = cx.expr(body.value);
        let mut v = vec![
            ("path", s(self.path(def.to_def_id()))),
            ("kind", s(format!("{:?}", kind).split(|c: char| !c.is_alphanumeric()).next().unwrap_or("").to_string())),
            ("span", s(self.span(tcx.def_span(def)))),
        ];
        if matches!(kind, DefKind::Fn | DefKind::AssocFn) {
            v.push(("vis", s(self.vis(tcx.visibility(def)))));
            let sig = tcx.fn_sig(def).instantiate_identity().skip_norm_wip().skip_binder();
            let ins: Vec<J> = sig.inputs().iter().map(|t| self.ty_ix(*t)).collect();
            let out = self.ty_ix(sig.output());
            v.push(("inputs", J::Arr(ins)));
            v.push(("output", out));
            // parent impl / trait
            if let Some(p) = tcx.opt_parent(def.to_def_id()) {
                match tcx.def_kind(p) {
                    DefKind::Impl { .. } => {
                        let st = tcx.type_of(p).instantiate_identity().skip_norm_wip();
                        let st = self.ty_ix(st);
                        v.push(("impl_self", st));
                        if let Some(t) = tcx.impl_opt_trait_ref(p) {
                            let t = t.instantiate_identity().skip_norm_wip();
                            let p = with_no_visible_paths!(with_no_trimmed_paths!(with_crate_prefix!(t.print_only_trait_path().to_string())));
                            v.push(("impl_trait", s(self.fix_crate(p))));
                        }
                    }
                    DefKind::Trait => {
                        v.push(("in_trait", s(self.path(p))));
                    }
                    _ => {}
                }
            }
        } else {
            let t = tcx.type_of(def).instantiate_identity().skip_norm_wip();
            let t = self.ty_ix(t);
            v.push(("ty", t));
        }
        v.push(("params", J::Arr(params)));
        v.push(("body", value));
        obj(v)
    }
}

struct BodyCx<'a, 'tcx> {
    ex: &'a mut Extractor<'tcx>,
    tr: &'tcx TypeckResults<'tcx>,
    owner: LocalDefId,
}

impl<'a, 'tcx> BodyCx<'a, 'tcx> {
    fn tcx(&self) -> TyCtxt<'tcx> {
        self.ex.tcx
    }

    fn node(&mut self, k: &'static str, e: &hir::Expr<'tcx>, mut rest: Vec<(&'static str, J)>) -> J {
        let mut v = vec![("k", s(k))];
        v.append(&mut rest);
        if let Some(t) = self.tr.expr_ty_opt(e) {
            let t = self.ex.ty_ix(t);
            v.push(("ty", t));
        }
        let adj = self.tr.expr_adjustments(e);
        if !adj.is_empty() {
            let mut a = vec![];
            for ad in adj {
                use ty::adjustment::{Adjust, AutoBorrow};
                let n = match &ad.kind {
                    Adjust::NeverToAny => "never",
                    Adjust::Deref(_) => "deref",
                    Adjust::Borrow(AutoBorrow::Ref(m)) => {
                        if matches!(m, ty::adjustment::AutoBorrowMutability::Mut { .. }) { "refmut" } else { "ref" }
                    }
                    Adjust::Borrow(_) => "rawptr",
                    Adjust::Pointer(_) => "ptrcast",
                    _ => "other",
                };
                a.push(s(n));
            }
            v.push(("adj", J::Arr(a)));
            let t = self.tr.expr_ty_adjusted(e);
            let t = self.ex.ty_ix(t);
            v.push(("aty", t));
        }
        v.push(("sp", s(self.ex.span(e.span))));
        if let Some(m) = self.ex.mac(e.span) {
            v.push(("mac", m));
        }
        obj(v)
    }

    // resolve a (possibly trait) fn to the impl item where rustc can
    fn resolve(&self, did: DefId, args: ty::GenericArgsRef<'tcx>) -> Option<String> {
        let tcx = self.tcx();
        if !matches!(tcx.def_kind(did), DefKind::Fn | DefKind::AssocFn) {
            return None;
        }
        // only trait items need resolution
        let is_trait_item = tcx.opt_parent(did).map(|p| matches!(tcx.def_kind(p), DefKind::Trait)).unwrap_or(false);
        if !is_trait_item {
            return None;
        }
        if args.len() != tcx.generics_of(did).count() {
            return None;
        }
        let env = ty::TypingEnv::post_analysis(tcx, self.owner.to_def_id());
        let args = tcx.erase_and_anonymize_regions(args);
        match ty::Instance::try_resolve(tcx, env, did, args) {
            Ok(Some(inst)) => {
                let d = inst.def_id();
                if d != did { Some(self.ex.path(d)) } else { None }
            }
            _ => None,
        }
    }

    fn res_path(&mut self, res: Res, hir_id: hir::HirId, e: Option<&hir::Expr<'tcx>>) -> Vec<(&'static str, J)> {
        let tcx = self.tcx();
        match res {
            Res::Local(id) => vec![
                ("name", s(tcx.hir_name(id).to_string())),
                ("id", J::Num(id.local_id.as_u32() as i64)),
            ],
            Res::Def(kind, did) => {
                let mut v = vec![];
                let (dk, p) = match kind {
                    DefKind::Ctor(of, _) => {
                        let par = tcx.parent(did);
                        (if matches!(of, CtorOf::Variant) { "ctor_variant" } else { "ctor_struct" }, self.ex.path(par))
                    }
                    DefKind::Fn => ("fn", self.ex.path(did)),
                    DefKind::AssocFn => ("assoc_fn", self.ex.path(did)),
                    DefKind::Const { .. } => ("const", self.ex.path(did)),
                    DefKind::AssocConst { .. } => ("assoc_const", self.ex.path(did)),
                    DefKind::Static { .. } => ("static", self.ex.path(did)),
                    DefKind::ConstParam => ("const_param", self.ex.path(did)),
                    _ => ("other", self.ex.path(did)),
                };
                v.push(("dk", s(dk)));
                v.push(("path", s(p)));
                if let Some(_e) = e {
                    if matches!(kind, DefKind::Fn | DefKind::AssocFn) {
                        let args = self.tr.node_args(hir_id);
                        if let Some(r) = self.resolve(did, args) {
                            v.push(("res", s(r)));
                        }
                    }
                }
                v
            }
            Res::SelfCtor(_) => vec![("dk", s("self_ctor"))],
            other => vec![("dk", s("other")), ("path", s(format!("{:?}", other)))],
        }
    }

    // resolved path of a callee expression (path to a fn / assoc fn, incl. lang items), impl-resolved where possible
    fn callee_path(&mut self, f: &hir::Expr<'tcx>) -> Option<String> {
        if let hir::ExprKind::Path(ref qp) = f.kind {
            let res = self.tr.qpath_res(qp, f.hir_id);
            if let Res::Def(DefKind::Fn | DefKind::AssocFn, did) = res {
                let args = self.tr.node_args(f.hir_id);
                return Some(self.resolve(did, args).unwrap_or_else(|| self.ex.path(did)));
            }
        }
        None
    }

    fn variant_of(&mut self, res: Res, ty: Ty<'tcx>) -> Option<String> {
        let ty = ty.peel_refs();
        match res {
            Res::Def(DefKind::Ctor(..), did) => Some(self.ex.path(self.tcx().parent(did))),
            Res::Def(DefKind::Variant, did) => Some(self.ex.path(did)),
            Res::Def(DefKind::Struct, did) => Some(self.ex.path(did)),
            _ => {
                if let Some(adt) = ty.ty_adt_def() {
                    if adt.is_struct() {
                        return Some(self.ex.path(adt.did()));
                    }
                }
                None
            }
        }
    }

    fn block(&mut self, b: &hir::Block<'tcx>) -> J {
        let mut stmts = vec![];
        for st in b.stmts {
            match st.kind {
                hir::StmtKind::Let(l) => {
                    let pat = self.pat(l.pat);
                    let mut v = vec![("k", s("let")), ("pat", pat)];
                    if let Some(i) = l.init {
                        v.push(("init", self.expr(i)));
                    }
                    if let Some(els) = l.els {
                        v.push(("els", self.block(els)));
                    }
                    v.push(("sp", s(self.ex.span(l.span))));
                    stmts.push(obj(v));
                }
                hir::StmtKind::Item(_) => {}
                hir::StmtKind::Expr(e) => stmts.push(self.expr(e)),
                hir::StmtKind::Semi(e) => {
                    let inner = self.expr(e);
                    stmts.push(obj(vec![("k", s("semi")), ("e", inner)]));
                }
            }
        }
        let mut v = vec![("k", s("block")), ("stmts", J::Arr(stmts))];
        if let Some(e) = b.expr {
            v.push(("tail", self.expr(e)));
        }
        v.push(("sp", s(self.ex.span(b.span))));
        obj(v)
    }

    fn lit(&mut self, l: &hir::Lit) -> Vec<(&'static str, J)> {
        use rustc_ast::LitKind;
        match &l.node {
            LitKind::Str(sym, _) => vec![("lk", s("str")), ("v", s(sym.as_str()))],
            LitKind::ByteStr(b, _) => vec![("lk", s("bytestr")), ("v", s(String::from_utf8_lossy(b.as_byte_str()).to_string()))],
            LitKind::Byte(b) => vec![("lk", s("byte")), ("v", J::Num(*b as i64))],
            LitKind::Char(c) => vec![("lk", s("char")), ("v", s(c.to_string()))],
            LitKind::Int(n, _) => {
                let n = n.get();
                if n <= i64::MAX as u128 { vec![("lk", s("int")), ("v", J::Num(n as i64))] } else { vec![("lk", s("int")), ("v", s(n.to_string()))] }
            }
            LitKind::Bool(b) => vec![("lk", s("bool")), ("v", J::Bool(*b))],
            LitKind::Float(sym, _) => vec![("lk", s("float")), ("v", s(sym.as_str()))],
            _ => vec![("lk", s("other"))],
        }
    }

    fn expr(&mut self, e: &hir::Expr<'tcx>) -> J {
        use hir::ExprKind as K;
        match e.kind {
            K::DropTemps(inner) | K::Use(inner, _) => self.expr(inner),
            K::Type(inner, _) => self.expr(inner),
            K::Block(b, _) => {
                let bj = self.block(b);
                self.node("blockexpr", e, vec![("b", bj)])
            }
            K::Lit(l) => {
                let r = self.lit(&l);
                self.node("lit", e, r)
            }
            K::Path(ref qp) => {
                let res = self.tr.qpath_res(qp, e.hir_id);
                let r = self.res_path(res, e.hir_id, Some(e));
                let k = if matches!(res, Res::Local(_)) { "local" } else { "def" };
                self.node(k, e, r)
            }
            K::Call(f, args) => {
                let aj: Vec<J> = args.iter().map(|a| self.expr(a)).collect();
                // resolved callee?
                if let K::Path(ref qp) = f.kind {
                    let res = self.tr.qpath_res(qp, f.hir_id);
                    if let Res::Def(kind, _) = res {
                        let mut r = self.res_path(res, f.hir_id, Some(f));
                        r.push(("args", J::Arr(aj)));
                        let k = match kind {
                            DefKind::Ctor(..) => "ctor",
                            _ => "call",
                        };
                        return self.node(k, e, r);
                    }
                    if let Res::SelfCtor(_) = res {
                        let ty = self.tr.expr_ty(e);
                        let p = self.variant_of(res, ty).unwrap_or_default();
                        return self.node("ctor", e, vec![("dk", s("ctor_struct")), ("path", s(p)), ("args", J::Arr(aj))]);
                    }
                }
                let fj = self.expr(f);
                self.node("callv", e, vec![("f", fj), ("args", J::Arr(aj))])
            }
            K::MethodCall(seg, recv, args, _) => {
                let rj = self.expr(recv);
                let aj: Vec<J> = args.iter().map(|a| self.expr(a)).collect();
                let mut v = vec![("name", s(seg.ident.to_string()))];
                if let Some(did) = self.tr.type_dependent_def_id(e.hir_id) {
                    v.push(("path", s(self.ex.path(did))));
                    let ga = self.tr.node_args(e.hir_id);
                    if let Some(r) = self.resolve(did, ga) {
                        v.push(("res", s(r)));
                    }
                }
                v.push(("recv", rj));
                v.push(("args", J::Arr(aj)));
                self.node("mcall", e, v)
            }
            K::Tup(es) => {
                let v: Vec<J> = es.iter().map(|a| self.expr(a)).collect();
                self.node("tuple", e, vec![("es", J::Arr(v))])
            }
            K::Array(es) => {
                let v: Vec<J> = es.iter().map(|a| self.expr(a)).collect();
                self.node("array", e, vec![("es", J::Arr(v))])
            }
            K::Repeat(el, _) => {
                let ej = self.expr(el);
                self.node("repeat", e, vec![("e", ej)])
            }
            K::Binary(op, l, r) => {
                let lj = self.expr(l);
                let rj = self.expr(r);
                let mut v = vec![("op", s(op.node.as_str())), ("l", lj), ("r", rj)];
                if self.tr.is_method_call(e) {
                    if let Some(did) = self.tr.type_dependent_def_id(e.hir_id) {
                        v.push(("ovl", s(self.ex.path(did))));
                        let ga = self.tr.node_args(e.hir_id);
                        if let Some(r) = self.resolve(did, ga) {
                            v.push(("res", s(r)));
                        }
                    }
                }
                self.node("binary", e, v)
            }
            K::Unary(op, inner) => {
                let ij = self.expr(inner);
                let ops = match op {
                    hir::UnOp::Deref => "*",
                    hir::UnOp::Not => "!",
                    hir::UnOp::Neg => "-",
                };
                let mut v = vec![("op", s(ops)), ("e", ij)];
                if self.tr.is_method_call(e) {
                    if let Some(did) = self.tr.type_dependent_def_id(e.hir_id) {
                        v.push(("ovl", s(self.ex.path(did))));
                    }
                }
                self.node("unary", e, v)
            }
            K::Cast(inner, _) => {
                let from = self.tr.expr_ty(inner);
                let from = self.ex.ty_ix(from);
                let ij = self.expr(inner);
                self.node("cast", e, vec![("e", ij), ("from", from)])
            }
            K::Let(l) => {
                let pj = self.pat(l.pat);
                let ij = self.expr(l.init);
                self.node("letexpr", e, vec![("pat", pj), ("init", ij)])
            }
            K::If(c, t, el) => {
                let cj = self.expr(c);
                let tj = self.expr(t);
                let mut v = vec![("cond", cj), ("then", tj)];
                if let Some(el) = el {
                    v.push(("else", self.expr(el)));
                }
                self.node("if", e, v)
            }
            K::Loop(b, _, src, _) => self.loop_(e, b, src),
            K::Match(scrut, arms, src) => self.match_(e, scrut, arms, src),
            K::Closure(c) => {
                let body = self.tcx().hir_body(c.body);
                let params: Vec<J> = body.params.iter().map(|p| self.pat(p.pat)).collect();
                let bj = self.expr(body.value);
                self.node("closure", e, vec![("params", J::Arr(params)), ("body", bj)])
            }
            K::Assign(l, r, _) => {
                let lj = self.expr(l);
                let rj = self.expr(r);
                self.node("assign", e, vec![("l", lj), ("r", rj)])
            }
            K::AssignOp(op, l, r) => {
                let lj = self.expr(l);
                let rj = self.expr(r);
                self.node("assignop", e, vec![("op", s(op.node.as_str())), ("l", lj), ("r", rj)])
            }
            K::Field(inner, ident) => {
                let ij = self.expr(inner);
                self.node("field", e, vec![("name", s(ident.to_string())), ("e", ij)])
            }
            K::Index(b, i, _) => {
                let bj = self.expr(b);
                let ij = self.expr(i);
                let mut v = vec![("e", bj), ("i", ij)];
                if self.tr.is_method_call(e) {
                    if let Some(did) = self.tr.type_dependent_def_id(e.hir_id) {
                        v.push(("ovl", s(self.ex.path(did))));
                        let ga = self.tr.node_args(e.hir_id);
                        if let Some(r) = self.resolve(did, ga) {
                            v.push(("res", s(r)));
                        }
                    }
                }
                self.node("index", e, v)
            }
            K::AddrOf(_, m, inner) => {
                let ij = self.expr(inner);
                self.node("ref", e, vec![("mut", J::Bool(matches!(m, hir::Mutability::Mut))), ("e", ij)])
            }
            K::Break(_, val) => {
                let mut v = vec![];
                if let Some(x) = val {
                    v.push(("e", self.expr(x)));
                }
                self.node("break", e, v)
            }
            K::Continue(_) => self.node("continue", e, vec![]),
            K::Ret(val) => {
                let mut v = vec![];
                if let Some(x) = val {
                    v.push(("e", self.expr(x)));
                }
                self.node("return", e, v)
            }
            K::Struct(qp, fields, tail) => {
                let res = self.tr.qpath_res(qp, e.hir_id);
                let ty = self.tr.expr_ty(e);
                let p = self.variant_of(res, ty).unwrap_or_else(|| format!("{:?}", res));
                let mut fs = vec![];
                for f in fields {
                    let fj = self.expr(f.expr);
                    fs.push(obj(vec![("name", s(f.ident.to_string())), ("e", fj)]));
                }
                let mut v = vec![("path", s(p)), ("fields", J::Arr(fs))];
                if let hir::StructTailExpr::Base(b) = tail {
                    v.push(("base", self.expr(b)));
                }
                self.node("struct", e, v)
            }
            K::ConstBlock(_) => self.node("constblock", e, vec![]),
            K::Become(_) | K::InlineAsm(_) | K::OffsetOf(..) | K::Yield(..) | K::UnsafeBinderCast(..) | K::Err(_) => {
                self.node("unsupported", e, vec![])
            }
        }
    }

    fn loop_(&mut self, e: &hir::Expr<'tcx>, b: &hir::Block<'tcx>, src: hir::LoopSource) -> J {
        match src {
            hir::LoopSource::While => {
                // loop { if cond { body } else { break } }
                if let Some(inner) = b.expr {
                    if let hir::ExprKind::If(c, t, _) = inner.kind {
                        let cj = self.expr(c);
                        let tj = self.expr(t);
                        return self.node("while", e, vec![("cond", cj), ("body", tj)]);
                    }
                }
                let bj = self.block(b);
                self.node("loop", e, vec![("body", bj), ("src", s("while?"))])
            }
            _ => {
                let bj = self.block(b);
                self.node("loop", e, vec![("body", bj)])
            }
        }
    }

    fn match_(&mut self, e: &hir::Expr<'tcx>, scrut: &hir::Expr<'tcx>, arms: &[hir::Arm<'tcx>], src: hir::MatchSource) -> J {
        match src {
            hir::MatchSource::TryDesugar(_) => {
                // match Try::branch(x) { Continue(v) => v, Break(r) => return from_residual(r) }
                if let hir::ExprKind::Call(_, args) = scrut.kind {
                    if args.len() == 1 {
                        let ij = self.expr(&args[0]);
                        return self.node("try", e, vec![("e", ij)]);
                    }
                }
            }
            hir::MatchSource::ForLoopDesugar => {
                // match IntoIterator::into_iter(iter) { mut iter => loop { match next(&mut iter) { None => break, Some(pat) => body } } }
                if let hir::ExprKind::Call(_, args) = scrut.kind {
                    if args.len() == 1 && arms.len() == 1 {
                        if let hir::ExprKind::Loop(lb, _, _, _) = arms[0].body.kind {
                            let inner = lb.stmts.first().and_then(|st| match st.kind {
                                hir::StmtKind::Expr(x) | hir::StmtKind::Semi(x) => Some(x),
                                _ => None,
                            }).or(lb.expr);
                            if let Some(inner) = inner {
                                if let hir::ExprKind::Match(_, iarms, _) = inner.kind {
                                    if iarms.len() == 2 {
                                        let some_arm = &iarms[1];
                                        let pat = match some_arm.pat.kind {
                                            hir::PatKind::TupleStruct(_, ps, _) if ps.len() == 1 => self.pat(&ps[0]),
                                            hir::PatKind::Struct(_, fs, _) if fs.len() == 1 => self.pat(fs[0].pat),
                                            _ => self.pat(some_arm.pat),
                                        };
                                        let iter = self.expr(&args[0]);
                                        let body = self.expr(some_arm.body);
                                        let mut v = vec![("pat", pat), ("iter", iter), ("body", body)];
                                        // resolved Iterator::next / IntoIterator::into_iter of the loop (for the call graph)
                                        if let hir::ExprKind::Match(nscrut, _, _) = inner.kind {
                                            if let hir::ExprKind::Call(nf, _) = nscrut.kind {
                                                if let Some(p) = self.callee_path(nf) {
                                                    v.push(("next_fn", s(p)));
                                                }
                                            }
                                        }
                                        if let hir::ExprKind::Call(itf, _) = scrut.kind {
                                            if let Some(p) = self.callee_path(itf) {
                                                v.push(("into_iter_fn", s(p)));
                                            }
                                        }
                                        return self.node("for", e, v);
                                    }
                                }
                            }
                        }
                    }
                }
            }
            _ => {}
        }
        let sj = self.expr(scrut);
        let mut aj = vec![];
        for a in arms {
            let pj = self.pat(a.pat);
            let mut v = vec![("pat", pj)];
            if let Some(g) = a.guard {
                v.push(("guard", self.expr(g)));
            }
            v.push(("body", self.expr(a.body)));
            v.push(("sp", s(self.ex.span(a.span))));
            aj.push(obj(v));
        }
        let srcs = match src {
            hir::MatchSource::Normal => "match",
            hir::MatchSource::FormatArgs => "format_args",
            _ => "other",
        };
        self.node("match", e, vec![("scrut", sj), ("arms", J::Arr(aj)), ("src", s(srcs))])
    }

    fn pat_expr(&mut self, pe: &hir::PatExpr<'tcx>, pat: &hir::Pat<'tcx>) -> J {
        match &pe.kind {
            hir::PatExprKind::Lit { lit, negated } => {
                let mut v = vec![("k", s("plit"))];
                v.append(&mut self.lit(lit));
                if *negated {
                    v.push(("neg", J::Bool(true)));
                }
                obj(v)
            }
            hir::PatExprKind::Path(qp) => {
                let res = self.tr.qpath_res(qp, pe.hir_id);
                let ty = self.tr.pat_ty(pat);
                match res {
                    Res::Def(DefKind::Const { .. } | DefKind::AssocConst { .. }, did) => {
                        obj(vec![("k", s("pconst")), ("path", s(self.ex.path(did)))])
                    }
                    _ => {
                        let p = self.variant_of(res, ty).unwrap_or_else(|| format!("{:?}", res));
                        obj(vec![("k", s("pvariant")), ("path", s(p)), ("subs", J::Arr(vec![])), ("rest", J::Bool(false))])
                    }
                }
            }
        }
    }

    fn pat(&mut self, p: &hir::Pat<'tcx>) -> J {
        use hir::PatKind as P;
        let mut out = match p.kind {
            P::Wild | P::Missing => obj(vec![("k", s("pwild"))]),
            P::Never => obj(vec![("k", s("pnever"))]),
            P::Binding(mode, id, ident, sub) => {
                let mut v = vec![
                    ("k", s("pbind")),
                    ("name", s(ident.to_string())),
                    ("id", J::Num(id.local_id.as_u32() as i64)),
                    ("byref", J::Bool(!matches!(mode.0, hir::ByRef::No))),
                    ("mut", J::Bool(matches!(mode.1, hir::Mutability::Mut))),
                ];
                if let Some(sp) = sub {
                    v.push(("sub", self.pat(sp)));
                }
                obj(v)
            }
            P::Struct(ref qp, fields, rest) => {
                let res = self.tr.qpath_res(qp, p.hir_id);
                let ty = self.tr.pat_ty(p);
                let path = self.variant_of(res, ty).unwrap_or_else(|| format!("{:?}", res));
                let mut fs = vec![];
                for f in fields {
                    let fj = self.pat(f.pat);
                    fs.push(obj(vec![("name", s(f.ident.to_string())), ("pat", fj)]));
                }
                obj(vec![("k", s("pstruct")), ("path", s(path)), ("fields", J::Arr(fs)), ("rest", J::Bool(rest.is_some()))])
            }
            P::TupleStruct(ref qp, pats, ddpos) => {
                let res = self.tr.qpath_res(qp, p.hir_id);
                let ty = self.tr.pat_ty(p);
                let path = self.variant_of(res, ty).unwrap_or_else(|| format!("{:?}", res));
                let subs: Vec<J> = pats.iter().map(|x| self.pat(x)).collect();
                let mut v = vec![("k", s("pvariant")), ("path", s(path)), ("subs", J::Arr(subs)), ("rest", J::Bool(ddpos.as_opt_usize().is_some()))];
                if let Some(pos) = ddpos.as_opt_usize() {
                    v.push(("restpos", J::Num(pos as i64)));
                }
                obj(v)
            }
            P::Or(pats) => {
                let subs: Vec<J> = pats.iter().map(|x| self.pat(x)).collect();
                obj(vec![("k", s("por")), ("alts", J::Arr(subs))])
            }
            P::Tuple(pats, ddpos) => {
                let subs: Vec<J> = pats.iter().map(|x| self.pat(x)).collect();
                obj(vec![("k", s("ptuple")), ("subs", J::Arr(subs)), ("rest", J::Bool(ddpos.as_opt_usize().is_some()))])
            }
            P::Box(inner) | P::Deref(inner) => {
                let ij = self.pat(inner);
                obj(vec![("k", s("pderef")), ("pat", ij)])
            }
            P::Ref(inner, _, _) => {
                let ij = self.pat(inner);
                obj(vec![("k", s("pref")), ("pat", ij)])
            }
            P::Expr(pe) => self.pat_expr(pe, p),
            P::Guard(inner, g) => {
                let ij = self.pat(inner);
                let gj = self.expr(g);
                obj(vec![("k", s("pguard")), ("pat", ij), ("guard", gj)])
            }
            P::Range(lo, hi, end) => {
                let mut v = vec![("k", s("prange")), ("inclusive", J::Bool(matches!(end, hir::RangeEnd::Included)))];
                if let Some(lo) = lo {
                    v.push(("lo", self.pat_expr(lo, p)));
                }
                if let Some(hi) = hi {
                    v.push(("hi", self.pat_expr(hi, p)));
                }
                obj(v)
            }
            P::Slice(before, mid, after) => {
                let b: Vec<J> = before.iter().map(|x| self.pat(x)).collect();
                let a: Vec<J> = after.iter().map(|x| self.pat(x)).collect();
                let mut v = vec![("k", s("pslice")), ("before", J::Arr(b)), ("after", J::Arr(a))];
                if let Some(m) = mid {
                    v.push(("mid", self.pat(m)));
                }
                obj(v)
            }
            P::Err(_) => obj(vec![("k", s("perr"))]),
        };
        if let J::Obj(ref mut v) = out {
            if let Some(t) = self.tr.node_type_opt(p.hir_id) {
                let t = self.ex.ty_ix(t);
                v.push(("ty", t));
            }
        }
        out
    }
}
