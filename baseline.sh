#!/bin/bash
# Runs the repository's pinned baseline (guard OFF: no hooks exist, nothing is enabled) and compares with
# the 115 stable tests of /root/.vp/BASELINE.json. exit 0 iff every stable test passes.
cd /repo || exit 2
export CARGO_NET_OFFLINE=true
OUT=$(mktemp)
cargo nextest run --workspace --no-fail-fast --offline --test-threads 8 >"$OUT" 2>&1
python3 - "$OUT" <<'PY'
import json, re, sys
out = open(sys.argv[1]).read()
base = json.load(open('/root/.vp/BASELINE.json'))
passed = set()
for m in re.finditer(r'^\s+PASS \[[^\]]*\]\s+(?:\(\s*\d+/\d+\)\s+)?(\S+)\s+(\S+)', out, re.M):
    passed.add(m.group(1) + '::' + m.group(2))
    passed.add(m.group(1) + ' ' + m.group(2))
missing = []
for t in base['stable_pass']:
    # baseline ids look like  <binary id>::<test path>
    ok = any(p.replace(' ', '::') == t for p in passed)
    if not ok:
        missing.append(t)
print('stable tests passing: %d / %d' % (len(base['stable_pass']) - len(missing), len(base['stable_pass'])))
for t in missing:
    print('NOT PASSING:', t)
sys.exit(1 if missing else 0)
PY
rc=$?
rm -f "$OUT"
exit $rc
